--------------------------- MODULE Genes ---------------------------
(* Gene-level grouping of bins (C16): CopyNumArray.by_gene, squash_genes, reports.do_genemetrics           *)
(* (by gene / by segment) and reports.do_breaks.                                                           *)
(*                                                                                                         *)
(* A bin table is a sequence of rows <<c, s, e, g, ix, x, w, d>>:                                          *)
(*   c  chromosome id (small integer; the harness maps ids to names, table order = id order),              *)
(*   s,e  0-based half-open coordinates,                                                                   *)
(*   g  the gene label as the SEQUENCE of its comma-separated names ("A,B" is <<"A","B">>; the harness     *)
(*      joins/splits on commas -- TLC strings cannot be indexed),                                          *)
(*   ix the row's pandas index LABEL (non-default for filtered arrays / second chromosomes),               *)
(*   x  log2 in units of 1/XU,  w weight in units of 1/WU,  d depth in units of 1/DU  (dyadic grids, so    *)
(*      every sum the code forms is exact in IEEE double and an exact integer here).                       *)
(* A segment table is a sequence of rows <<c, s, e, x, w, p>> (p = probes).                                *)
(*                                                                                                         *)
(* Reals observed from the real code are encoded as <<fi, ff>>: fi = floor(v*U), ff = round(frac*10^6)     *)
(* (0..10^6); ff = -1 encodes NaN, ff = -2 "not representable".                                            *)
(*                                                                                                         *)
(* P-layer = the property as stated; A-layer = the code's algorithm, case for case.  The A-layer follows   *)
(* the REPAIRED by_gene (positional, half-open slices); the algorithm of the unrepaired code is kept as    *)
(* ByGeneLabelInclusive (old = TRUE) and is used only to document the defect (MC_Genes!DesignOldByGene)    *)
(* and to recognise it (TriggerHolds).                                                                     *)
EXTENDS Naturals, Integers, Sequences, FiniteSets, SequencesExt, FiniteSetsExt, Functions, TLC

BC(b) == b[1]
BS(b) == b[2]
BE(b) == b[3]
BG(b) == b[4]
BI(b) == b[5]
BX(b) == b[6]
BW(b) == b[7]
BD(b) == b[8]
SC(t) == t[1]
SS(t) == t[2]
SE(t) == t[3]
SX(t) == t[4]
SW(t) == t[5]
SP(t) == t[6]

XU == 8     \* log2 grid: multiples of 1/8
WU == 8     \* weight grid
DU == 4     \* depth grid
Million == 1000000

(* params.py: IGNORE_GENE_NAMES + ANTITARGET_ALIASES *)
AntitargetName == "Antitarget"
AntitargetAliases == {"Antitarget", "Background"}
Ignored == {"-", ".", "CGH"} \cup AntitargetAliases
(* drop_low_coverage: log2 < NULL_LOG2_COVERAGE - MIN_REF_COVERAGE = -20 - (-5), or depth = 0 *)
LowX == -15 * XU
IsLow(b) == BX(b) < LowX \/ BD(b) = 0

Idx(t) == 1..Len(t)
Abs(v) == IF v < 0 THEN -v ELSE v
(* sum by halving: recursion depth log n (TLC worker threads have small stacks; the community FoldLeft is    *)
(* exponential under -coverage)                                                                             *)
RECURSIVE SumRange(_, _, _)
SumRange(q, lo, hi) == IF lo > hi THEN 0 ELSE IF lo = hi THEN q[lo]
                       ELSE SumRange(q, lo, (lo + hi) \div 2) + SumRange(q, (lo + hi) \div 2 + 1, hi)
SumSeq(q) == SumRange(q, 1, Len(q))
SpanSeq(lo, hi) == [j \in 1..(hi - lo + 1) |-> lo + j - 1]
HasName(b, n) == \E j \in Idx(BG(b)) : BG(b)[j] = n
Ignorable(b) == \A j \in Idx(BG(b)) : BG(b)[j] \in Ignored
NoCommas(bins) == \A k \in Idx(bins) : Len(BG(bins[k])) = 1

SumW(rows)  == SumSeq([k \in Idx(rows) |-> BW(rows[k])])
SumWX(rows) == SumSeq([k \in Idx(rows) |-> BW(rows[k]) * BX(rows[k])])
SumWD(rows) == SumSeq([k \in Idx(rows) |-> BW(rows[k]) * BD(rows[k])])
SumX(rows)  == SumSeq([k \in Idx(rows) |-> BX(rows[k])])
NotLow(rows) == SelectSeq(rows, LAMBDA b : ~IsLow(b))

(* shift_xx(is_haploid_x_reference, is_xx): female vs haploid-X reference -> X log2 - 1;                    *)
(* male vs diploid-X reference -> X log2 + 1; otherwise unchanged.  par.xc = id of the X chromosome (0: none) *)
XDelta(par) == IF par.female /\ par.hap THEN -XU ELSE IF ~par.female /\ ~par.hap THEN XU ELSE 0
ShiftBins(bins, par) == [k \in Idx(bins) |-> IF BC(bins[k]) = par.xc THEN [bins[k] EXCEPT ![6] = @ + XDelta(par)] ELSE bins[k]]
ShiftSegs(segs, par) == [k \in Idx(segs) |-> IF SC(segs[k]) = par.xc THEN [segs[k] EXCEPT ![4] = @ + XDelta(par)] ELSE segs[k]]

(* ---- comparing an observed real <<fi, ff>> with an exact rational num/den (in grid units) -------------- *)
(* tolerance 2e-6 grid units (1/2 unit encoding error + 1 unit for the floor below); den <= 2000 (premise)  *)
IsNum(v) == v[2] >= 0
Close(v, num, den) ==
    /\ IsNum(v)
    /\ LET Q == num \div den
           R == num - Q * den
           E6 == (R * Million) \div den
           diff == v[1] - Q
       IN /\ diff \in {-1, 0, 1}
          /\ Abs(diff * Million + v[2] - E6) <= 2
(* expected rationals are <<num, den>>; den = 0 stands for NaN *)
CloseQ(v, q) == IF q[2] = 0 THEN v[2] = -1 ELSE Close(v, q[1], q[2])
Exactly(v, n) == v = <<n, 0>>
(* the encoding of num/den that an exact implementation would be observed as *)
EncQ(q) == IF q[2] = 0 THEN <<0, -1>>
           ELSE LET Q == q[1] \div q[2]
                    R == q[1] - Q * q[2]
                    f == (R * Million + q[2] \div 2) \div q[2]
                IN IF f = Million THEN <<Q + 1, 0>> ELSE <<Q, f>>

(* |num/den| >= threshold tn/td  (log2 units), by cross-multiplication *)
Reaches(q, par) == q[2] > 0 /\ Abs(q[1]) * par.td >= par.tn * XU * q[2]

(* ===================================================================== A-layer ========================== *)
(* by_chromosome: groupby(sort=False) -- chromosomes in order of first appearance, rows in table order *)
(* the distinct elements of q in order of first occurrence *)
UniqSeq(q) == LET f == SelectSeq([i \in Idx(q) |-> i], LAMBDA i : \A j \in 1..(i - 1) : q[j] # q[i])
              IN [k \in Idx(f) |-> q[f[k]]]
ChromOrder(bins) == UniqSeq([k \in Idx(bins) |-> BC(bins[k])])
AllPos(bins) == [k \in Idx(bins) |-> k]
PosOn(bins, c) == SelectSeq(AllPos(bins), LAMBDA k : BC(bins[k]) = c)

(* gary.py::_get_gene_map on the sub-table ps (a sequence of global row positions): an ordered dict of the   *)
(* names in order of first occurrence, every label split on commas                                          *)
GeneMapOrder(bins, ps) == UniqSeq(FlattenSeq([p \in Idx(ps) |-> BG(bins[ps[p]])]))
GeneIdx(bins, ps, n) == {p \in Idx(ps) : HasName(bins[ps[p]], n)}     \* local 1-based positions of gene n

(* cnary.py::by_gene on one chromosome, REPAIRED: prev/start/end are row POSITIONS (0-based, half-open)     *)
RECURSIVE ByGeneLoop(_, _, _, _, _, _)
ByGeneLoop(bins, ps, order, j, prev, acc) ==
    IF j > Len(order)
    THEN IF prev < Len(ps)                                     \* "if prev_idx < len(subgary)": the telomere
         THEN Append(acc, <<AntitargetName, SubSeq(ps, prev + 1, Len(ps))>>)      \* .iloc[prev_idx:]
         ELSE acc
    ELSE LET n == order[j] IN
         IF n \in Ignored THEN ByGeneLoop(bins, ps, order, j + 1, prev, acc)      \* "if gene not in ignore"
         ELSE LET gi == GeneIdx(bins, ps, n)
                  start == Min(gi) - 1                          \* position[gene_idx[0]]
                  end   == Max(gi)                              \* position[gene_idx[-1]] + 1
                  acc1  == IF prev < start                      \* intergenic run before the gene
                           THEN Append(acc, <<AntitargetName, SubSeq(ps, prev + 1, start)>>)   \* .iloc[prev:start]
                           ELSE acc
                  acc2  == Append(acc1, <<n, SubSeq(ps, start + 1, end)>>)                     \* .iloc[start:end]
              IN ByGeneLoop(bins, ps, order, j + 1, IF end > prev THEN end ELSE prev, acc2)    \* prev_idx = max(prev_idx, end_idx)

(* the UNREPAIRED loop: prev/start/end are index LABELS, slices are label-based and END-INCLUSIVE           *)
(* (.loc[a:b]), prev starts at the label 0, and the telomere test compares a label with a row count         *)
LocSlice(bins, ps, lo, hi) == SelectSeq(ps, LAMBDA k : lo <= BI(bins[k]) /\ BI(bins[k]) <= hi)
LocFrom(bins, ps, lo)      == SelectSeq(ps, LAMBDA k : lo <= BI(bins[k]))
RECURSIVE OldByGeneLoop(_, _, _, _, _, _)
OldByGeneLoop(bins, ps, order, j, prev, acc) ==
    IF j > Len(order)
    THEN IF prev < Len(ps) - 1                                  \* "if prev_idx < len(subgary) - 1"
         THEN Append(acc, <<AntitargetName, LocFrom(bins, ps, prev)>>)            \* .loc[prev_idx:]
         ELSE acc
    ELSE LET n == order[j] IN
         IF n \in Ignored THEN OldByGeneLoop(bins, ps, order, j + 1, prev, acc)
         ELSE LET gi == GeneIdx(bins, ps, n)
                  startL == BI(bins[ps[Min(gi)]])               \* gene_idx[0]        (a label)
                  endL   == BI(bins[ps[Max(gi)]]) + 1           \* gene_idx[-1] + 1   (a label)
                  acc1   == IF prev < startL
                            THEN Append(acc, <<AntitargetName, LocSlice(bins, ps, prev, startL)>>)
                            ELSE acc
                  acc2   == Append(acc1, <<n, LocSlice(bins, ps, startL, endL)>>)
              IN OldByGeneLoop(bins, ps, order, j + 1, endL, acc2)

ByGeneOn(bins, ps, old) ==
    IF old THEN OldByGeneLoop(bins, ps, GeneMapOrder(bins, ps), 1, 0, <<>>)
    ELSE ByGeneLoop(bins, ps, GeneMapOrder(bins, ps), 1, 0, <<>>)
ByGeneAll(bins, old) ==
    LET co == ChromOrder(bins) IN FlattenSeq([n \in Idx(co) |-> ByGeneOn(bins, PosOn(bins, co[n]), old)])
ByGene(bins)               == ByGeneAll(bins, FALSE)
ByGeneLabelInclusive(bins) == ByGeneAll(bins, TRUE)

(* segmetrics.py::segment_mean -> <<num, den>> in log2 grid units, <<0,0>> = NaN *)
SegmentMean(rows, skip) ==
    LET kept == IF skip THEN NotLow(rows) ELSE rows IN
    IF kept = <<>> THEN <<0, 0>>
    ELSE IF \E k \in Idx(kept) : BW(kept[k]) # 0 THEN <<SumWX(kept), SumW(kept)>>     \* np.average(log2, weights)
    ELSE <<SumX(kept), Len(kept)>>                                                    \* plain mean

(* reports.py::group_by_genes over the groups of by_gene *)
GroupRow(bins, name, poss, skip) ==
    LET rows == [k \in Idx(poss) |-> bins[poss[k]]] IN
    [gene |-> name, c |-> BC(rows[1]), s |-> BS(rows[1]), e |-> BE(rows[Len(rows)]), probes |-> Len(rows),
     w |-> SumW(rows),
     d |-> IF SumW(rows) # 0 THEN <<SumWD(rows), SumW(rows)>> ELSE <<0, 0>>,    \* (np.average raises at zero weight: outside the premise)
     x |-> SegmentMean(rows, skip), sw |-> 0, sp |-> 0]
GroupByGenes(groups, bins, skip) ==
    LET keep == SelectSeq(groups, LAMBDA g : g[2] # <<>> /\ g[1] \notin ({""} \cup AntitargetAliases))
    IN [k \in Idx(keep) |-> GroupRow(bins, keep[k][1], keep[k][2], skip)]

MinProbesFilter(rows, par, bySeg) ==       \* do_genemetrics: "if min_probes and len(table)"
    IF par.minp # 0 /\ rows # <<>>
    THEN SelectSeq(rows, LAMBDA w : (IF bySeg /\ par.segcols THEN w.sp ELSE w.probes) >= par.minp)
    ELSE rows

(* do_genemetrics without segments: shift_xx, gene_metrics_by_gene, min_probes *)
GeneMetricsA(r, old) ==
    LET adj  == ShiftBins(r.bins, r.par)
        rows == GroupByGenes(ByGeneAll(adj, old), adj, r.par.skip)
        hit  == SelectSeq(rows, LAMBDA w : Reaches(w.x, r.par) /\ w.gene # "")
    IN MinProbesFilter(hit, r.par, FALSE)

(* by_ranges(segments), mode "outer": bins of the segment's chromosome with end > seg.start, start < seg.end *)
SegPos(bins, t) == SelectSeq(AllPos(bins), LAMBDA k : BC(bins[k]) = SC(t) /\ BE(bins[k]) > SS(t) /\ BS(bins[k]) < SE(t))
SegChromOrder(segs) == UniqSeq([k \in Idx(segs) |-> SC(segs[k])])
(* by_shared_chroms groups the segments by chromosome (first appearance), rows in table order *)
SegOrder(segs) == LET co == SegChromOrder(segs)
                  IN FlattenSeq([n \in Idx(co) |-> SelectSeq([k \in Idx(segs) |-> k], LAMBDA k : SC(segs[k]) = co[n])])
GeneMetricsSegA(r, old) ==
    LET adj  == ShiftBins(r.bins, r.par)
        sadj == ShiftSegs(r.segs, r.par)
        so   == SegOrder(sadj)
        perSeg(t) ==
            IF Abs(SX(t)) * r.par.td >= r.par.tn * XU                    \* abs(segment.log2) >= threshold
            THEN LET rows == GroupByGenes(ByGeneOn(adj, SegPos(adj, t), old), adj, r.par.skip)
                 IN [k \in Idx(rows) |-> [rows[k] EXCEPT !.x = <<SX(t), 1>>,
                                                         !.sw = IF r.par.segcols THEN SW(t) ELSE 0,
                                                         !.sp = IF r.par.segcols THEN SP(t) ELSE 0]]
            ELSE <<>>
        rows == FlattenSeq([n \in Idx(so) |-> perSeg(sadj[so[n]])])
    IN MinProbesFilter(rows, r.par, TRUE)

(* cnary.py::squash_genes with summary_func max / min; rows <<c, s, e, g, x, d, w>> *)
MaxOf(q) == Max(Range(q))
MinOf(q) == Min(Range(q))
Summ(f, q) == IF f = "max" THEN MaxOf(q) ELSE MinOf(q)
SquashA(r, old) ==
    LET groups == SelectSeq(ByGeneAll(r.bins, old), LAMBDA g : g[2] # <<>>)       \* "if not len(subarr): continue"
        asIs(b) == <<BC(b), BS(b), BE(b), BG(b), BX(b), BD(b), BW(b)>>
        one(g) ==
            LET rows == [k \in Idx(g[2]) |-> r.bins[g[2][k]]] IN
            IF g[1] \in AntitargetAliases /\ ~r.par.sqat THEN [k \in Idx(rows) |-> asIs(rows[k])]
            ELSE IF Len(rows) = 1 THEN <<asIs(rows[1])>>                          \* squash_rows: a single row is kept
            ELSE << <<BC(rows[1]), BS(rows[1]), BE(rows[Len(rows)]), <<g[1]>>,
                      Summ(r.par.sfun, [k \in Idx(rows) |-> BX(rows[k])]),
                      Summ(r.par.sfun, [k \in Idx(rows) |-> BD(rows[k])]),
                      Summ(r.par.sfun, [k \in Idx(rows) |-> BW(rows[k])])>> >>
    IN FlattenSeq([n \in Idx(groups) |-> one(groups[n])])

(* reports.py::get_gene_intervals + get_breakpoints.  A gene here is the WHOLE label (not split on commas). *)
LabelIgnored(g) == Len(g) = 1 /\ g[1] \in Ignored
BrKey(w) == <<IF w[5] < w[6] THEN w[5] ELSE w[6], Abs(w[4])>>
BrKeyLess(u, v) == u[1] < v[1] \/ (u[1] = v[1] /\ u[2] < v[2])
(* breakpoints.sort(key = (min(left, right), abs(change)), reverse = True): descending, ties keep their order *)
RECURSIVE BrInsert(_, _)
BrInsert(acc, w) == IF acc = <<>> THEN <<w>>
                    ELSE IF BrKeyLess(BrKey(Head(acc)), BrKey(w)) THEN <<w>> \o acc
                    ELSE <<Head(acc)>> \o BrInsert(Tail(acc), w)
RECURSIVE BrSort(_, _)
BrSort(q, acc) == IF q = <<>> THEN acc ELSE BrSort(Tail(q), BrInsert(acc, Head(q)))
BreaksA(r) ==
    LET bins == r.bins
        segs == r.segs
        namedRows(c) == SelectSeq(bins, LAMBDA b : BC(b) = c /\ ~LabelIgnored(BG(b)))      \* "if gname not in ignore"
        genesOn(c) == UniqSeq([k \in Idx(namedRows(c)) |-> BG(namedRows(c)[k])])
        rowsOf(c, g) == SelectSeq(bins, LAMBDA b : BC(b) = c /\ BG(b) = g)
        firstStart(c, g) == Min({BS(rowsOf(c, g)[k]) : k \in Idx(rowsOf(c, g))})
        gend(c, g)  == Max({BE(rowsOf(c, g)[k]) : k \in Idx(rowsOf(c, g))})
        (* intervals[chrom].sort(key = starts): bins are disjoint, so the first start decides *)
        sortedGenes(c) == SortSeq(genesOn(c), LAMBDA g, h : firstStart(c, g) < firstStart(c, h))
        atBoundary(i) ==
            IF SC(segs[i + 1]) # SC(segs[i]) THEN <<>>               \* last segment of its chromosome
            ELSE LET c == SC(segs[i])
                     b == SE(segs[i])
                     gs == sortedGenes(c)
                     left(g)  == Cardinality({k \in Idx(rowsOf(c, g)) : BS(rowsOf(c, g)[k]) < b})
                     right(g) == Cardinality({k \in Idx(rowsOf(c, g)) : BS(rowsOf(c, g)[k]) >= b})
                     hit == SelectSeq(gs, LAMBDA g : /\ firstStart(c, g) < b /\ b < gend(c, g)
                                                     /\ left(g) >= r.par.minp /\ right(g) >= r.par.minp)
                 IN [k \in Idx(hit) |-> <<hit[k], c, b, SX(segs[i + 1]) - SX(segs[i]), left(hit[k]), right(hit[k])>>]
    IN IF Len(segs) < 2 THEN <<>>
       ELSE BrSort(FlattenSeq([i \in 1..(Len(segs) - 1) |-> atBoundary(i)]), <<>>)

(* ---- the A-layer result in the encoding in which real outputs are recorded ----------------------------- *)
EncRow(w) == <<w.gene, w.c, w.s, w.e, w.probes, <<w.w, 0>>, EncQ(w.d), EncQ(w.x), <<w.sw, 0>>, w.sp>>
ALayerOut(r, old) ==
    CASE r.op = "by_gene"         -> ByGeneAll(r.bins, old)
      [] r.op = "squash"          -> LET q == SquashA(r, old) IN
                                     [k \in Idx(q) |-> <<q[k][1], q[k][2], q[k][3], q[k][4], <<q[k][5], 0>>, <<q[k][6], 0>>, <<q[k][7], 0>>>>]
      [] r.op = "genemetrics"     -> LET q == GeneMetricsA(r, old) IN [k \in Idx(q) |-> EncRow(q[k])]
      [] r.op = "genemetrics_seg" -> LET q == GeneMetricsSegA(r, old) IN [k \in Idx(q) |-> EncRow(q[k])]
      [] r.op = "breaks"          -> LET q == BreaksA(r) IN
                                     [k \in Idx(q) |-> <<q[k][1], q[k][2], q[k][3], <<q[k][4], 0>>, q[k][5], q[k][6]>>]
      [] OTHER                    -> <<>>
(* observed output equals an A-layer result (reals within the stated tolerance) *)
NearV(v, u) == /\ v[2] >= 0 <=> u[2] >= 0
               /\ v[2] >= 0 => Abs((v[1] - u[1]) * Million + v[2] - u[2]) <= 2
SameRow(op, o, a) ==
    CASE op = "by_gene" -> o = a
      [] op = "squash"  -> /\ <<o[1], o[2], o[3], o[4]>> = <<a[1], a[2], a[3], a[4]>>
                           /\ NearV(o[5], a[5]) /\ NearV(o[6], a[6]) /\ NearV(o[7], a[7])
      [] op \in {"genemetrics", "genemetrics_seg"} ->
                           /\ <<o[1], o[2], o[3], o[4], o[5], o[10]>> = <<a[1], a[2], a[3], a[4], a[5], a[10]>>
                           /\ NearV(o[6], a[6]) /\ NearV(o[7], a[7]) /\ NearV(o[8], a[8]) /\ NearV(o[9], a[9])
      [] op = "breaks"  -> /\ <<o[1], o[2], o[3], o[5], o[6]>> = <<a[1], a[2], a[3], a[5], a[6]>>
                           /\ NearV(o[4], a[4])
      [] OTHER -> FALSE
OutMatches(r, a) == /\ r.err = "" /\ Len(r.out) = Len(a)
                    /\ \A k \in Idx(a) : SameRow(r.op, r.out[k], a[k])

(* ===================================================================== P-layer ========================== *)
(* named genes as <<chromosome, name>>; a gene's bins are the bins whose label holds its name *)
NamedGenes(bins) ==
    UNION {{<<BC(bins[k]), BG(bins[k])[j]>> : j \in {i \in Idx(BG(bins[k])) : BG(bins[k])[i] \notin Ignored}} : k \in Idx(bins)}
GenePos(bins, gn) == {k \in Idx(bins) : BC(bins[k]) = gn[1] /\ HasName(bins[k], gn[2])}
(* first and last bin of every named gene *)
Spans(bins) == [gn \in NamedGenes(bins) |-> <<Min(GenePos(bins, gn)), Max(GenePos(bins, gn))>>]

(* PREMISE of the statement: "every named gene's bins are consecutive on one chromosome (possibly           *)
(* interrupted only by Antitarget or ignored-name bins)"                                                    *)
GenesContiguous(bins) ==
    LET sp == Spans(bins) IN
    \A gn \in DOMAIN sp :
        /\ \A k \in Idx(bins) : HasName(bins[k], gn[2]) => BC(bins[k]) = gn[1]                 \* on one chromosome
        /\ \A k \in sp[gn][1]..sp[gn][2] : HasName(bins[k], gn[2]) \/ Ignorable(bins[k])      \* interrupted only by ignorable bins
(* a bin table as tabio.read / a row filter delivers it *)
TableOK(bins) ==
    /\ \A k \in Idx(bins) : /\ 0 <= BS(bins[k]) /\ BS(bins[k]) < BE(bins[k]) /\ BC(bins[k]) >= 1
                            /\ Len(BG(bins[k])) >= 1 /\ \A j \in Idx(BG(bins[k])) : BG(bins[k])[j] # ""
                            /\ BI(bins[k]) >= 0 /\ BW(bins[k]) >= 0 /\ BD(bins[k]) >= 0
                            /\ Abs(BX(bins[k])) <= 250 /\ BD(bins[k]) <= 1000
    /\ \A k \in 1..(Len(bins) - 1) :
          /\ \A m \in (k + 1)..Len(bins) : BI(bins[k]) # BI(bins[m])                          \* distinct labels (filtered / re-ordered / offset index)
          /\ \/ BC(bins[k]) < BC(bins[k + 1])                                                  \* sorted by chromosome,
             \/ BC(bins[k]) = BC(bins[k + 1]) /\ BE(bins[k]) <= BS(bins[k + 1])                \* then position; disjoint
    /\ SumW(bins) <= 2000                                                                      \* keeps Close() inside 32 bits
SegsOK(segs) ==
    /\ \A k \in Idx(segs) : 0 <= SS(segs[k]) /\ SS(segs[k]) < SE(segs[k]) /\ SC(segs[k]) >= 1 /\ Abs(SX(segs[k])) <= 1000
                            /\ SW(segs[k]) >= 0 /\ SW(segs[k]) <= 100000 /\ SP(segs[k]) >= 0
    /\ \A k \in 1..(Len(segs) - 1) : \/ SC(segs[k]) < SC(segs[k + 1])
                                     \/ SC(segs[k]) = SC(segs[k + 1]) /\ SE(segs[k]) <= SS(segs[k + 1])
(* no bin is cut by a segment end: every bin lies inside a segment or apart from it *)
BinsRespectSegs(bins, segs) ==
    \A k \in Idx(bins) : \A t \in Idx(segs) :
        BC(bins[k]) = SC(segs[t]) =>
            \/ (SS(segs[t]) <= BS(bins[k]) /\ BE(bins[k]) <= SE(segs[t]))
            \/ BE(bins[k]) <= SS(segs[t]) \/ SE(segs[t]) <= BS(bins[k])

(* ---- by_gene ------------------------------------------------------------------------------------------- *)
(* out: sequence of groups <<name, sequence of row positions>> (position 0 = a yielded row that is not a row *)
(* of the input)                                                                                             *)
(* "for each gene exactly the bins from its first to its last bin" (and the gene is yielded once)            *)
BgGeneSpan(bins, out) ==
    LET sp == Spans(bins) IN
    \A gn \in DOMAIN sp :
        LET js == {j \in Idx(out) : out[j][1] = gn[2]} IN
        /\ Cardinality(js) = 1
        /\ \A j \in js : out[j][2] = SpanSeq(sp[gn][1], sp[gn][2])
(* maximal stretches of bins outside every gene's first..last range, per chromosome *)
OtherStretchSeq(bins) ==        \* in genomic order
    LET sp == Spans(bins)
        inG(k) == \E gn \in DOMAIN sp : gn[1] = BC(bins[k]) /\ sp[gn][1] <= k /\ k <= sp[gn][2]
        brk(k) == k = 0 \/ k = Len(bins) \/ BC(bins[k]) # BC(bins[k + 1])
        starts == SelectSeq([k \in Idx(bins) |-> k], LAMBDA k : ~inG(k) /\ (brk(k - 1) \/ inG(k - 1)))
        endOf(lo) == Min({h \in lo..Len(bins) : brk(h) \/ inG(h + 1)})
    IN [m \in Idx(starts) |-> SpanSeq(starts[m], endOf(starts[m]))]
OtherStretches(bins) == Range(OtherStretchSeq(bins))
(* "and, labelled Antitarget, exactly the stretches of other bins between, before and after genes" *)
BgAntitarget(bins, out) ==
    LET at == {j \in Idx(out) : out[j][1] = AntitargetName}
        st == OtherStretches(bins)
    IN /\ {out[j][2] : j \in at} = st
       /\ Cardinality(at) = Cardinality(st)
       /\ \A j \in Idx(out) : out[j][1] = AntitargetName \/ \E gn \in NamedGenes(bins) : gn[2] = out[j][1]
(* "yields, in genomic order": every group is a run of consecutive bins and the groups follow one another *)
BgOrder(out) ==
    /\ \A j \in Idx(out) : /\ Len(out[j][2]) >= 1
                           /\ \A m \in 1..(Len(out[j][2]) - 1) : out[j][2][m + 1] = out[j][2][m] + 1
    /\ \A j \in 1..(Len(out) - 1) : out[j][2][Len(out[j][2])] < out[j + 1][2][1]
(* "so every bin is yielded exactly once and none twice" *)
BgEachBinOnce(bins, out) ==
    /\ \A j \in Idx(out) : \A m \in Idx(out[j][2]) : out[j][2][m] \in Idx(bins)
    /\ \A k \in Idx(bins) :
          SumSeq([j \in Idx(out) |-> Cardinality({m \in Idx(out[j][2]) : out[j][2][m] = k})]) = 1

(* ---- genemetrics without segments ---------------------------------------------------------------------- *)
(* per gene: first..last bins; the mean is the weighted mean over those bins (with skip_low: over those of   *)
(* them that are not low-coverage -- drop_low_coverage's documented meaning); the counts are the gene's own  *)
GeneInfo(bins, sp, gn, skip) ==
    LET rows  == SubSeq(bins, sp[gn][1], sp[gn][2])
        mrows == IF skip THEN NotLow(rows) ELSE rows
    IN [lo |-> sp[gn][1], hi |-> sp[gn][2], probes |-> Len(rows), w |-> SumW(rows), wd |-> SumWD(rows),
        nm |-> Len(mrows), mw |-> SumW(mrows), mwx |-> SumWX(mrows)]
GeneReaches(gi, par) == gi.nm > 0 /\ gi.mw > 0 /\ Abs(gi.mwx) * par.td >= par.tn * XU * gi.mw
(* out rows: <<gene, c, s, e, probes, w, d, x, segment_weight, segment_probes>>, reals as <<fi, ff>> *)
RowKey(o) == <<o[2], o[1]>>
(* "reports, for exactly the genes whose weighted mean log2 reaches the threshold and that have at least the *)
(* minimum number of bins" *)
GmExactGenes(r) ==
    LET adj == ShiftBins(r.bins, r.par)
        sp  == Spans(adj)
        want == {gn \in DOMAIN sp : LET gi == GeneInfo(adj, sp, gn, r.par.skip) IN
                                    GeneReaches(gi, r.par) /\ gi.probes >= r.par.minp}
    IN /\ {RowKey(r.out[j]) : j \in Idx(r.out)} = want
       /\ Len(r.out) = Cardinality(want)
(* "with the gene's true start, end, bin count" *)
GmCoords(r) ==
    LET sp == Spans(r.bins) IN
    \A j \in Idx(r.out) : RowKey(r.out[j]) \in DOMAIN sp =>
        LET s == sp[RowKey(r.out[j])] IN
        /\ r.out[j][3] = BS(r.bins[s[1]]) /\ r.out[j][4] = BE(r.bins[s[2]]) /\ r.out[j][5] = s[2] - s[1] + 1
(* "summed weight and weight-averaged depth" *)
GmWeightDepth(r) ==
    LET sp == Spans(r.bins) IN
    \A j \in Idx(r.out) : RowKey(r.out[j]) \in DOMAIN sp =>
        LET gi == GeneInfo(r.bins, sp, RowKey(r.out[j]), FALSE) IN
        /\ Exactly(r.out[j][6], gi.w) /\ Close(r.out[j][7], gi.wd, gi.w)
(* "that mean" *)
GmMean(r) ==
    LET adj == ShiftBins(r.bins, r.par)
        sp  == Spans(adj) IN
    \A j \in Idx(r.out) : RowKey(r.out[j]) \in DOMAIN sp =>
        LET gi == GeneInfo(adj, sp, RowKey(r.out[j]), r.par.skip) IN
        gi.nm > 0 /\ Close(r.out[j][8], gi.mwx, gi.mw)

(* ---- genemetrics with segments ------------------------------------------------------------------------- *)
(* "for each segment reaching the threshold the part of every gene inside it with the segment's log2".       *)
(* The part of gene n inside segment t: from the first to the last of the segment's bins that carry n.        *)
(* min_probes: the statement does not say whether the minimum applies to the part's bins or to the segment's  *)
(* probe count (the code uses the latter when the segments have one); a part passing under BOTH readings must *)
(* be reported, one passing under NEITHER must not, the rest is left free.                                    *)
SegBinSet(bins, t) == {k \in Idx(bins) : BC(bins[k]) = SC(t) /\ BE(bins[k]) > SS(t) /\ BS(bins[k]) < SE(t)}
Parts(r) ==      \* <<segment index, name, lo, hi>>
    LET adj == r.bins
        sadj == ShiftSegs(r.segs, r.par) IN
    UNION {LET ps == SegBinSet(adj, sadj[t])
               names == {n \in UNION {Range(BG(adj[k])) : k \in ps} : n \notin Ignored}
           IN {<<t, n, Min({k \in ps : HasName(adj[k], n)}), Max({k \in ps : HasName(adj[k], n)})>> : n \in names}
           : t \in {u \in Idx(sadj) : Abs(SX(sadj[u])) * r.par.td >= r.par.tn * XU}}
PartProbes(p) == p[4] - p[3] + 1
PartRequired(r, p) == PartProbes(p) >= r.par.minp /\ (r.par.segcols => SP(r.segs[p[1]]) >= r.par.minp)
PartAllowed(r, p)  == PartProbes(p) >= r.par.minp \/ (r.par.segcols /\ SP(r.segs[p[1]]) >= r.par.minp)
RowIsPart(r, o, p) == /\ o[1] = p[2] /\ o[2] = BC(r.bins[p[3]]) /\ o[3] = BS(r.bins[p[3]]) /\ o[4] = BE(r.bins[p[4]])
GsExactParts(r) ==
    LET ps == Parts(r) IN
    /\ \A j \in Idx(r.out) : \E p \in ps : PartAllowed(r, p) /\ RowIsPart(r, r.out[j], p)
    /\ \A p \in ps : PartRequired(r, p) => \E j \in Idx(r.out) : RowIsPart(r, r.out[j], p)
    /\ \A i, j \in Idx(r.out) : i # j => <<r.out[i][1], r.out[i][2], r.out[i][3]>> # <<r.out[j][1], r.out[j][2], r.out[j][3]>>
(* the part's own bin count, summed weight and weight-averaged depth; the segment's log2 (and weight/probes) *)
GsFields(r) ==
    LET ps == Parts(r)
        sadj == ShiftSegs(r.segs, r.par) IN
    \A j \in Idx(r.out) : \A p \in ps : RowIsPart(r, r.out[j], p) =>
        LET rows == SubSeq(r.bins, p[3], p[4])
            o == r.out[j] IN
        /\ o[5] = Len(rows) /\ Exactly(o[6], SumW(rows)) /\ Close(o[7], SumWD(rows), SumW(rows))
        /\ Exactly(o[8], SX(sadj[p[1]]))
        /\ r.par.segcols => (Exactly(o[9], SW(sadj[p[1]])) /\ o[10] = SP(sadj[p[1]]))

(* ---- squash_genes -------------------------------------------------------------------------------------- *)
(* out rows: <<c, s, e, g, x, d, w>>                                                                        *)
(* "one row per gene with those coordinates" *)
SqGeneRows(r) ==
    LET sp == Spans(r.bins) IN
    \A gn \in DOMAIN sp :
        LET js == {j \in Idx(r.out) : r.out[j][4] = <<gn[2]>>} IN
        /\ Cardinality(js) = 1
        /\ \A j \in js : <<r.out[j][1], r.out[j][2], r.out[j][3]>> = <<gn[1], BS(r.bins[sp[gn][1]]), BE(r.bins[sp[gn][2]])>>
(* the bins outside every gene are kept, each exactly once (squash_antitarget: one row per stretch) *)
SqOtherBins(r) ==
    LET others == SelectSeq(r.out, LAMBDA o : ~\E gn \in NamedGenes(r.bins) : o[4] = <<gn[2]>>)
        st == OtherStretchSeq(r.bins)
        keep(q) == [m \in Idx(q) |-> <<BC(r.bins[q[m]]), BS(r.bins[q[m]]), BE(r.bins[q[m]]), BG(r.bins[q[m]])>>]
        one(q) == IF r.par.sqat /\ Len(q) > 1
                  THEN << <<BC(r.bins[q[1]]), BS(r.bins[q[1]]), BE(r.bins[q[Len(q)]]), <<AntitargetName>>>> >>
                  ELSE keep(q)
    IN [m \in Idx(others) |-> <<others[m][1], others[m][2], others[m][3], others[m][4]>>]
         = FlattenSeq([m \in Idx(st) |-> one(st[m])])
SqOrder(r) == \A j \in 1..(Len(r.out) - 1) :
                 \/ r.out[j][1] < r.out[j + 1][1]
                 \/ r.out[j][1] = r.out[j + 1][1] /\ r.out[j][3] <= r.out[j + 1][2]

(* ---- breaks -------------------------------------------------------------------------------------------- *)
(* out rows: <<g, c, location, change, probes_left, probes_right>>                                          *)
(* a boundary between two segments: the end of a segment that is followed by another on its chromosome       *)
Boundaries(segs) == {i \in 1..(Len(segs) - 1) : SC(segs[i]) = SC(segs[i + 1])}
LeftOf(bins, gn, b)  == Cardinality({k \in GenePos(bins, gn) : BE(bins[k]) <= b})
RightOf(bins, gn, b) == Cardinality({k \in GenePos(bins, gn) : BS(bins[k]) >= b})
(* "lists exactly the genes having at least the minimum number of bins on each side of a boundary" *)
BrExpected(r) ==
    {<<q[1][2], q[1][1], SE(r.segs[q[2]])>> :
        q \in {p \in NamedGenes(r.bins) \X Boundaries(r.segs) :
                  /\ SC(r.segs[p[2]]) = p[1][1]
                  /\ LeftOf(r.bins, p[1], SE(r.segs[p[2]])) >= r.par.minp
                  /\ RightOf(r.bins, p[1], SE(r.segs[p[2]])) >= r.par.minp}}
BrExactGenes(r) ==
    /\ \A j \in Idx(r.out) : Len(r.out[j][1]) = 1
    /\ {<<r.out[j][1][1], r.out[j][2], r.out[j][3]>> : j \in Idx(r.out)} = BrExpected(r)
    /\ Len(r.out) = Cardinality(BrExpected(r))
(* the reported numbers of bins on each side are the gene's own *)
BrCounts(r) ==
    \A j \in Idx(r.out) : (Len(r.out[j][1]) = 1 /\ <<r.out[j][2], r.out[j][1][1]>> \in NamedGenes(r.bins)) =>
        /\ r.out[j][5] = LeftOf(r.bins, <<r.out[j][2], r.out[j][1][1]>>, r.out[j][3])
        /\ r.out[j][6] = RightOf(r.bins, <<r.out[j][2], r.out[j][1][1]>>, r.out[j][3])

(* ---- clause table -------------------------------------------------------------------------------------- *)
Ops == {"by_gene", "squash", "genemetrics", "genemetrics_seg", "breaks"}
(* comma-joined labels put one bin into two genes, so "each bin exactly once" cannot hold by construction:   *)
(* such tables are judged on the per-gene first..last clauses only                                           *)
Clauses(op) ==
    CASE op = "by_gene"         -> {"bg_noerr", "bg_gene_span", "bg_antitarget_stretches", "bg_genomic_order", "bg_each_bin_once"}
      [] op = "squash"          -> {"sq_noerr", "sq_one_row_per_gene", "sq_other_bins_kept", "sq_genomic_order"}
      [] op = "genemetrics"     -> {"gm_noerr", "gm_exact_genes", "gm_coords_probes", "gm_weight_depth", "gm_mean"}
      [] op = "genemetrics_seg" -> {"gs_noerr", "gs_exact_parts", "gs_fields"}
      [] op = "breaks"          -> {"br_noerr", "br_exact_genes", "br_counts"}
      [] OTHER                  -> {}
NoErr(r) == r.err = ""
Holds(c, r) ==
    CASE c \in {"bg_noerr", "sq_noerr", "gm_noerr", "gs_noerr", "br_noerr"} -> NoErr(r)
      [] c = "bg_gene_span"            -> NoErr(r) => BgGeneSpan(r.bins, r.out)
      [] c = "bg_antitarget_stretches" -> (NoErr(r) /\ NoCommas(r.bins)) => BgAntitarget(r.bins, r.out)
      [] c = "bg_genomic_order"        -> (NoErr(r) /\ NoCommas(r.bins)) => BgOrder(r.out)
      [] c = "bg_each_bin_once"        -> (NoErr(r) /\ NoCommas(r.bins)) => BgEachBinOnce(r.bins, r.out)
      [] c = "sq_one_row_per_gene"     -> NoErr(r) => SqGeneRows(r)
      [] c = "sq_other_bins_kept"      -> NoErr(r) => SqOtherBins(r)
      [] c = "sq_genomic_order"        -> NoErr(r) => SqOrder(r)
      [] c = "gm_exact_genes"          -> NoErr(r) => GmExactGenes(r)
      [] c = "gm_coords_probes"        -> NoErr(r) => GmCoords(r)
      [] c = "gm_weight_depth"         -> NoErr(r) => GmWeightDepth(r)
      [] c = "gm_mean"                 -> NoErr(r) => GmMean(r)
      [] c = "gs_exact_parts"          -> NoErr(r) => GsExactParts(r)
      [] c = "gs_fields"               -> NoErr(r) => GsFields(r)
      [] c = "br_exact_genes"          -> NoErr(r) => BrExactGenes(r)
      [] c = "br_counts"               -> NoErr(r) => BrCounts(r)

(* ---- premise ------------------------------------------------------------------------------------------- *)
(* bounds keep the cross-multiplications inside TLC's 32-bit integers: |sum w*x| <= 2000*250, sum w <= 2000 *)
ThresholdOK(par) == par.tn >= 0 /\ par.td >= 1 /\ par.td <= 4000 /\ par.tn <= 100000 /\ par.minp >= 0
(* every group whose weighted mean / weighted depth the statement speaks of has positive total weight *)
GeneWeightsOK(r) ==
    LET sp == Spans(r.bins) IN
    \A gn \in DOMAIN sp : LET gi == GeneInfo(r.bins, sp, gn, r.par.skip) IN gi.w > 0 /\ (gi.nm = 0 \/ gi.mw > 0)
PartWeightsOK(r) == \A p \in Parts(r) : SumW(SubSeq(r.bins, p[3], p[4])) > 0
Premise(r) ==
    /\ r.op \in Ops
    /\ TableOK(r.bins) /\ GenesContiguous(r.bins)
    /\ r.op = "squash" => NoCommas(r.bins) /\ r.par.sfun \in {"max", "min"}
    /\ r.op = "genemetrics" => ThresholdOK(r.par) /\ GeneWeightsOK(r)
    /\ r.op = "genemetrics_seg" => /\ ThresholdOK(r.par) /\ Len(r.segs) >= 1 /\ SegsOK(r.segs)
                                   /\ BinsRespectSegs(r.bins, r.segs) /\ PartWeightsOK(r)
    /\ r.op = "breaks" => /\ NoCommas(r.bins) /\ r.par.minp >= 1 /\ SegsOK(r.segs) /\ BinsRespectSegs(r.bins, r.segs)

(* ---- drift and the known defect ------------------------------------------------------------------------ *)
DefectInput(r) == r.op # "breaks" /\ ALayerOut(r, TRUE) # ALayerOut(r, FALSE)
(* an output that satisfies the judged clauses but is exactly the unrepaired algorithm's (possible only for   *)
(* comma-joined labels, which are judged on the per-gene clause alone) is the known defect, not drift         *)
Drift(r) == /\ ~OutMatches(r, ALayerOut(r, FALSE))
            /\ ~(DefectInput(r) /\ OutMatches(r, ALayerOut(r, TRUE)))

(* ByGeneLabelSlices: the input is one on which the unrepaired by_gene (label-based, end-inclusive slices,  *)
(* label compared with a row count) gives a different result than the statement demands, AND the observed   *)
(* output is exactly what that algorithm produces.  Any other wrong output is still a violation.            *)
KnownTriggers == {"ByGeneLabelSlices"}
TriggerHolds(t, r) ==
    CASE t = "ByGeneLabelSlices" -> r.op \in Ops /\ TableOK(r.bins) /\ DefectInput(r) /\ OutMatches(r, ALayerOut(r, TRUE))
      [] OTHER -> FALSE
=============================================================================
