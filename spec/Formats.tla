--------------------------- MODULE Formats ---------------------------
(* Table file formats of skgenome.tabio / cnvlib (property C08).                                *)
(*                                                                                              *)
(* An abstract table is [cols |-> Seq(column name), rows |-> Seq(Seq(cell))]; every name and    *)
(* every piece of text is a sequence of character codes (Text.tla).  Coordinates of an abstract *)
(* table are ALWAYS 0-based half-open [start, end).  A cell is a 4-tuple of uniform shape       *)
(*     <<"s", 0, 0, text>>      a string                                                        *)
(*     <<"i", 0, n, <<>>>>      an integer                                                      *)
(*     <<"f", neg, e, digits>>  a finite float as its shortest-repr decimal d1.d2d3.. * 10^e    *)
(*     <<"na", 0, 0, <<>>>>     missing                                                         *)
(*     <<"any", 0, 0, <<>>>>    (layouts only) a field the specification does not constrain     *)
(* A file is tokenised: Seq(line), line = Seq(field), field = text; lines were separated by     *)
(* "\n" and fields by "\t".                                                                     *)
(*                                                                                              *)
(* P-layer (the property as stated):                                                            *)
(*   Layout(fmt, srcs)       what a file of format fmt holding the table(s) looks like, as      *)
(*                           typed fields: 1-based formats carry start+1; this is also how the  *)
(*                           fixtures for the readers are laid out (never the code's writer);   *)
(*   Expect(fmt, rfmt, ..)   the table a reader rfmt must return for such a file: identical     *)
(*                           0-based coordinates, the columns the format keeps, defaults;       *)
(*   Canon / SortedOK        natural chromosome order (Text!KeyLess), then start, then end;     *)
(*   Round6Set / NumEq6      equality to 6 significant digits on decimal digit strings; an      *)
(*                           exact tie at the 7th digit accepts either rounding.                *)
(* A-layer (the code, case for case): AWrite(fmt, ..) per writer function, ARead(rfmt, file)    *)
(*   per reader function working on the tokens (int(), start - 1, pandas column inference,      *)
(*   sort_columns, stable sort), ASniff = sniff_region_format in its order of tests.            *)
(* Verdicts come from the P-layer only; A-layer disagreement is MODEL-DRIFT.                     *)
EXTENDS Text

(* ---------------------------------------------------------------- literal texts (generated) *)
t_chromosome == <<99, 104, 114, 111, 109, 111, 115, 111, 109, 101>>   \* 'chromosome'
t_start == <<115, 116, 97, 114, 116>>   \* 'start'
t_end == <<101, 110, 100>>   \* 'end'
t_gene == <<103, 101, 110, 101>>   \* 'gene'
t_strand == <<115, 116, 114, 97, 110, 100>>   \* 'strand'
t_log2 == <<108, 111, 103, 50>>   \* 'log2'
t_probes == <<112, 114, 111, 98, 101, 115>>   \* 'probes'
t_depth == <<100, 101, 112, 116, 104>>   \* 'depth'
t_weight == <<119, 101, 105, 103, 104, 116>>   \* 'weight'
t_gc == <<103, 99>>   \* 'gc'
t_ratio == <<114, 97, 116, 105, 111>>   \* 'ratio'
t_source == <<115, 111, 117, 114, 99, 101>>   \* 'source'
t_type == <<116, 121, 112, 101>>   \* 'type'
t_score == <<115, 99, 111, 114, 101>>   \* 'score'
t_phase == <<112, 104, 97, 115, 101>>   \* 'phase'
t_attribute == <<97, 116, 116, 114, 105, 98, 117, 116, 101>>   \* 'attribute'
t_ref == <<114, 101, 102>>   \* 'ref'
t_alt == <<97, 108, 116>>   \* 'alt'
t_id == <<105, 100>>   \* 'id'
t_qual == <<113, 117, 97, 108>>   \* 'qual'
t_filter == <<102, 105, 108, 116, 101, 114>>   \* 'filter'
t_info == <<105, 110, 102, 111>>   \* 'info'
t_format == <<102, 111, 114, 109, 97, 116>>   \* 'format'
t_ID == <<73, 68>>   \* 'ID'
t_chrom == <<99, 104, 114, 111, 109>>   \* 'chrom'
t_loc_start == <<108, 111, 99, 46, 115, 116, 97, 114, 116>>   \* 'loc.start'
t_loc_end == <<108, 111, 99, 46, 101, 110, 100>>   \* 'loc.end'
t_num_mark == <<110, 117, 109, 46, 109, 97, 114, 107>>   \* 'num.mark'
t_seg_mean == <<115, 101, 103, 46, 109, 101, 97, 110>>   \* 'seg.mean'
t_length == <<108, 101, 110, 103, 116, 104>>   \* 'length'
t_name == <<110, 97, 109, 101>>   \* 'name'
t_pct_gc == <<37, 103, 99>>   \* '%gc'
t_mean_coverage == <<109, 101, 97, 110, 95, 99, 111, 118, 101, 114, 97, 103, 101>>   \* 'mean_coverage'
t_normalized_coverage == <<110, 111, 114, 109, 97, 108, 105, 122, 101, 100, 95, 99, 111, 118, 101, 114, 97, 103, 101>>   \* 'normalized_coverage'
t_dash == <<45>>   \* '-'
t_plus == <<43>>   \* '+'
t_dot == <<46>>   \* '.'
t_zero == <<48>>   \* '0'
t_A == <<65>>   \* 'A'
t_G == <<71>>   \* 'G'
t_N == <<78>>   \* 'N'
t_DEL == <<60, 68, 69, 76, 62>>   \* '<DEL>'
t_verif == <<118, 101, 114, 105, 102>>   \* 'verif'
t_gffver == <<35, 35, 103, 102, 102, 45, 118, 101, 114, 115, 105, 111, 110, 32, 51>>   \* '##gff-version 3'
t_NameEq == <<78, 97, 109, 101, 61>>   \* 'Name='
t_gtf1 == <<103, 101, 110, 101, 95, 105, 100, 32, 34>>   \* 'gene_id "'
t_gtf2 == <<34, 59, 32, 116, 114, 97, 110, 115, 99, 114, 105, 112, 116, 95, 105, 100, 32, 34>>   \* '"; transcript_id "'
t_gtf3 == <<46, 49, 34, 59>>   \* '.1";'
t_HD == <<64, 72, 68>>   \* '@HD'
t_VN == <<86, 78, 58, 49, 46, 52>>   \* 'VN:1.4'
t_SQ == <<64, 83, 81>>   \* '@SQ'
t_SN == <<83, 78, 58>>   \* 'SN:'
t_LN == <<76, 78, 58, 52, 48, 48, 48, 48, 48, 48, 48, 48>>   \* 'LN:400000000'
t_vcf_ff == <<35, 35, 102, 105, 108, 101, 102, 111, 114, 109, 97, 116, 61, 86, 67, 70, 118, 52, 46, 50>>   \* '##fileformat=VCFv4.2'
t_vcf_end == <<35, 35, 73, 78, 70, 79, 61, 60, 73, 68, 61, 69, 78, 68, 44, 78, 117, 109, 98, 101, 114, 61, 49, 44, 84, 121, 112, 101, 61, 73, 110, 116, 101, 103, 101, 114, 44, 68, 101, 115, 99, 114, 105, 112, 116, 105, 111, 110, 61, 34, 69, 110, 100, 32, 112, 111, 115, 105, 116, 105, 111, 110, 32, 111, 102, 32, 116, 104, 101, 32, 118, 97, 114, 105, 97, 110, 116, 34, 62>>   \* '##INFO=<ID=END,Number=1,Type=Integer,Description="End position of the variant">'
t_vcf_svtype == <<35, 35, 73, 78, 70, 79, 61, 60, 73, 68, 61, 83, 86, 84, 89, 80, 69, 44, 78, 117, 109, 98, 101, 114, 61, 49, 44, 84, 121, 112, 101, 61, 83, 116, 114, 105, 110, 103, 44, 68, 101, 115, 99, 114, 105, 112, 116, 105, 111, 110, 61, 34, 84, 121, 112, 101, 32, 111, 102, 32, 115, 116, 114, 117, 99, 116, 117, 114, 97, 108, 32, 118, 97, 114, 105, 97, 110, 116, 34, 62>>   \* '##INFO=<ID=SVTYPE,Number=1,Type=String,Description="Type of structural variant">'
t_vcf_altdel == <<35, 35, 65, 76, 84, 61, 60, 73, 68, 61, 68, 69, 76, 44, 68, 101, 115, 99, 114, 105, 112, 116, 105, 111, 110, 61, 34, 68, 101, 108, 101, 116, 105, 111, 110, 34, 62>>   \* '##ALT=<ID=DEL,Description="Deletion">'
t_vcf_contig == <<35, 35, 99, 111, 110, 116, 105, 103, 61, 60, 73, 68, 61>>   \* '##contig=<ID='
t_gt == <<62>>   \* '>'
t_hCHROM == <<35, 67, 72, 82, 79, 77>>   \* '#CHROM'
t_POS == <<80, 79, 83>>   \* 'POS'
t_REF == <<82, 69, 70>>   \* 'REF'
t_ALT == <<65, 76, 84>>   \* 'ALT'
t_QUAL == <<81, 85, 65, 76>>   \* 'QUAL'
t_FILTER == <<70, 73, 76, 84, 69, 82>>   \* 'FILTER'
t_INFO == <<73, 78, 70, 79>>   \* 'INFO'
t_svinfo == <<83, 86, 84, 89, 80, 69, 61, 68, 69, 76, 59, 69, 78, 68, 61>>   \* 'SVTYPE=DEL;END='
t_ENDeq == <<69, 78, 68, 61>>   \* 'END='
t_track == <<116, 114, 97, 99, 107>>   \* 'track'
t_browser == <<98, 114, 111, 119, 115, 101, 114, 32>>   \* 'browser '
t_gffversion == <<35, 35, 103, 102, 102, 45, 118, 101, 114, 115, 105, 111, 110>>   \* '##gff-version'
t_ffvcf == <<35, 35, 102, 105, 108, 101, 102, 111, 114, 109, 97, 116, 61, 86, 67, 70>>   \* '##fileformat=VCF'
t_hCHR == <<35, 67, 72, 82>>   \* '#CHR'
t_tagName == <<78, 97, 109, 101>>   \* 'Name'
t_tag_gene_id == <<103, 101, 110, 101, 95, 105, 100>>   \* 'gene_id'
t_tag_gene_name == <<103, 101, 110, 101, 95, 110, 97, 109, 101>>   \* 'gene_name'
t_True == <<84, 114, 117, 101>>   \* 'True'
t_False == <<70, 97, 108, 115, 101>>   \* 'False'
NAWords == {<<>>, <<35, 78, 47, 65>>, <<35, 78, 47, 65, 32, 78, 47, 65>>, <<35, 78, 65>>, <<45, 49, 46, 35, 73, 78, 68>>, <<45, 49, 46, 35, 81, 78, 65, 78>>, <<45, 78, 97, 78>>, <<45, 110, 97, 110>>, <<49, 46, 35, 73, 78, 68>>, <<49, 46, 35, 81, 78, 65, 78>>, <<60, 78, 65, 62>>, <<78, 47, 65>>, <<78, 65>>, <<78, 85, 76, 76>>, <<78, 97, 78>>, <<78, 111, 110, 101>>, <<110, 47, 97>>, <<110, 97, 110>>, <<110, 117, 108, 108>>}
BoolWords == {<<84, 114, 117, 101>>, <<84, 82, 85, 69>>, <<116, 114, 117, 101>>, <<70, 97, 108, 115, 101>>, <<70, 65, 76, 83, 69>>, <<102, 97, 108, 115, 101>>}
InfWordsLower == {<<105, 110, 102>>, <<105, 110, 102, 105, 110, 105, 116, 121>>, <<110, 97, 110>>}

(* ================================================================= cells and tables ======= *)
SCell(t) == <<"s", 0, 0, t>>
ICell(n) == <<"i", 0, n, <<>>>>
FCell(x) == <<"f", IF x.neg THEN 1 ELSE 0, x.e, x.d>>
NACell   == <<"na", 0, 0, <<>>>>
AnyCell  == <<"any", 0, 0, <<>>>>
CDec(c)  == IF c[1] = "i" THEN DecOfInt(c[3]) ELSE Dec(c[2] = 1, c[4], c[3])     \* numeric value of an i/f cell
IsNumCell(c) == c[1] \in {"i", "f"}
ToDec(p) == Dec(p.neg, p.d, p.e)

Tbl(cols, rows) == [cols |-> cols, rows |-> rows]
EmptyTbl == Tbl(<<>>, <<>>)
NRows(t) == Len(t.rows)
ColIdx(t, name) == LET hits == {k \in 1..Len(t.cols) : t.cols[k] = name} IN IF hits = {} THEN 0 ELSE MinOf(hits)
HasCol(t, name) == \E k \in 1..Len(t.cols) : t.cols[k] = name
HasAll(t, names) == \A j \in 1..Len(names) : HasCol(t, names[j])
Col(t, k, name) == t.rows[k][ColIdx(t, name)]
Project(t, names) ==
    LET ix == [j \in 1..Len(names) |-> ColIdx(t, names[j])]
    IN Tbl(names, [k \in 1..NRows(t) |-> [j \in 1..Len(names) |-> t.rows[k][ix[j]]]])
ColumnOf(t, name) == LET ix == ColIdx(t, name) IN [k \in 1..NRows(t) |-> t.rows[k][ix]]
CSE == <<t_chromosome, t_start, t_end>>
CNA5 == <<t_chromosome, t_start, t_end, t_gene, t_log2>>
ChromTxt(t, k) == Col(t, k, t_chromosome)[4]
StartOf(t, k)  == Col(t, k, t_start)[3]
EndOf(t, k)    == Col(t, k, t_end)[3]
GeneCell(t, k) == IF HasCol(t, t_gene) THEN Col(t, k, t_gene) ELSE SCell(t_dash)
StrandCell(t, k, dflt) == IF HasCol(t, t_strand) THEN Col(t, k, t_strand) ELSE SCell(dflt)
Shift1(c) == ICell(c[3] + 1)
InSeq(x, s) == \E k \in 1..Len(s) : s[k] = x

(* ================================================================= 6 significant digits ==== *)
RECURSIVE IncDigits(_)
IncDigits(d) == IF d = <<>> THEN <<1>>                       \* digit values; 999 + 1 = 1000 (one digit longer)
                ELSE IF d[Len(d)] < 9 THEN [d EXCEPT ![Len(d)] = @ + 1]
                ELSE IncDigits(SubSeq(d, 1, Len(d) - 1)) \o <<0>>
(* the decimals with at most P significant digits that x may round to: one, or two at an exact tie *)
RoundSetP(x, P) ==
    IF Len(x.d) <= P THEN {Dec(x.neg, x.d, x.e)}
    ELSE LET head == SubSeq(x.d, 1, P)
             r    == x.d[P + 1]
             more == Len(x.d) > P + 1
             mk(h) == Dec(x.neg, StripZeros(h), IF Len(h) > P THEN x.e + 1 ELSE x.e)
             dn   == mk(head)
             up   == mk(IncDigits(head))
         IN IF r > 5 \/ (r = 5 /\ more) THEN {up} ELSE IF r < 5 THEN {dn} ELSE {dn, up}
Round6Set(x) == RoundSetP(x, 6)
NoSignZero(x) == IF x.d = <<>> THEN Dec(FALSE, <<>>, 0) ELSE x
(* "numbers equal to 6 significant digits" *)
NumEq6(x, y) == {NoSignZero(a) : a \in Round6Set(x)} \cap {NoSignZero(b) : b \in Round6Set(y)} # {}

(* C printf %.<P>g of a decimal with at most P significant digits (trailing zeros already gone) *)
DigitCodes(d) == [k \in 1..Len(d) |-> 48 + d[k]]
ExpText(e) == LET a == IF e < 0 THEN 0 - e ELSE e
              IN (IF e < 0 THEN <<ch_minus>> ELSE <<ch_plus>>) \o (IF a < 10 THEN <<48>> \o NatText(a) ELSE NatText(a))
FmtG(x, P) ==
    IF x.d = <<>> THEN (IF x.neg THEN <<ch_minus, 48>> ELSE <<48>>)
    ELSE LET dc   == DigitCodes(x.d)
             k    == Len(dc)
             sign == IF x.neg THEN <<ch_minus>> ELSE <<>>
             body == IF x.e < -4 \/ x.e >= P
                     THEN <<dc[1]>> \o (IF k > 1 THEN <<ch_dot>> \o Tail(dc) ELSE <<>>) \o <<101>> \o ExpText(x.e)
                     ELSE IF x.e >= 0
                          THEN (IF k <= x.e + 1 THEN dc \o Repeat(48, x.e + 1 - k)
                                ELSE SubSeq(dc, 1, x.e + 1) \o <<ch_dot>> \o SubSeq(dc, x.e + 2, k))
                          ELSE <<48, ch_dot>> \o Repeat(48, 0 - x.e - 1) \o dc
         IN sign \o body
Fmt6gSet(x) == {FmtG(r, 6) : r \in Round6Set(x)}          \* float_format='%.6g'
FixtureNum(x) == FmtG(x, 17)                               \* how fixtures spell a float: all repr digits

(* ================================================================= natural order =========== *)
(* rows augmented with their sort key once; then a stable sort (gary.py::sort, kind="mergesort") *)
RowKeyLess(a, b) == \/ KeyTupleLess(a[1], b[1])
                    \/ a[1] = b[1] /\ (a[2] < b[2] \/ (a[2] = b[2] /\ a[3] < b[3]))
Keyed(t) == LET ci == ColIdx(t, t_chromosome) si == ColIdx(t, t_start) ei == ColIdx(t, t_end)
            IN [k \in 1..NRows(t) |-> <<ChromKey(t.rows[k][ci][4]), t.rows[k][si][3], t.rows[k][ei][3], t.rows[k]>>]
Canon(t) == IF NRows(t) = 0 THEN t
            ELSE LET s == StableSortBy(Keyed(t), RowKeyLess) IN Tbl(t.cols, [k \in 1..Len(s) |-> s[k][4]])
SortedOK(t) == NRows(t) = 0 \/ (HasAll(t, CSE) /\ IsSortedBy(Keyed(t), RowKeyLess))

(* ================================================================= P-layer: layouts ======== *)
RowCSE(t, k) == <<Col(t, k, t_chromosome), Col(t, k, t_start), Col(t, k, t_end)>>
Row1(t, k)   == <<Col(t, k, t_chromosome), Shift1(Col(t, k, t_start)), Col(t, k, t_end)>>   \* 1-based start
ChromNames(t) == FirstSeen([k \in 1..NRows(t) |-> ChromTxt(t, k)])
LabelText(t, k) == ChromTxt(t, k) \o <<ch_colon>> \o IntText(StartOf(t, k) + 1) \o <<ch_minus>> \o IntText(EndOf(t, k))
Line1(txt) == <<SCell(txt)>>
TxtCells(names) == [j \in 1..Len(names) |-> SCell(names[j])]
SegHeader(t) == TxtCells(<<t_ID, t_chrom, t_loc_start, t_loc_end>> \o (IF HasCol(t, t_probes) THEN <<t_num_mark>> ELSE <<>>)
                         \o <<t_seg_mean>>)
SegRows(sid, t) == [k \in 1..NRows(t) |-> <<SCell(sid)>> \o Row1(t, k)
                                            \o (IF HasCol(t, t_probes) THEN <<Col(t, k, t_probes)>> ELSE <<>>)
                                            \o <<Col(t, k, t_log2)>>]
SegLayout(srcs) == <<SegHeader(srcs[1][2])>> \o Concat([m \in 1..Len(srcs) |-> SegRows(srcs[m][1], srcs[m][2])])
PicardHeader == TxtCells(<<t_chrom, t_start, t_end, t_length, t_name, t_pct_gc, t_mean_coverage, t_normalized_coverage>>)
VcfHeader(t) == <<Line1(t_vcf_ff), Line1(t_vcf_end), Line1(t_vcf_svtype), Line1(t_vcf_altdel)>>
                \o [j \in 1..Len(ChromNames(t)) |-> Line1(t_vcf_contig \o ChromNames(t)[j] \o t_gt)]
                \o <<TxtCells(<<t_hCHROM, t_POS, t_ID, t_REF, t_ALT, t_QUAL, t_FILTER, t_INFO>>)>>
VcfRow(t, k, allsv) ==
    IF ~allsv /\ EndOf(t, k) = StartOf(t, k) + 1
    THEN <<Col(t, k, t_chromosome), Shift1(Col(t, k, t_start))>> \o TxtCells(<<t_dot, t_A, t_G, t_dot, t_dot, t_dot>>)
    ELSE <<Col(t, k, t_chromosome), Shift1(Col(t, k, t_start))>> \o TxtCells(<<t_dot, t_N, t_DEL, t_dot, t_dot,
                                                                             t_svinfo \o IntText(EndOf(t, k))>>)
LayoutNames == {"bed3", "bed4", "bed", "bed6", "interval", "interval_hdr", "text", "text_gene", "tab", "seg",
                "picardhs", "gff", "gtf", "vcf", "vcf_sv"}
(* the typed lines of a file of layout fmt for the sample tables srcs = << <<sample id, table>>, .. >> *)
Layout(fmt, srcs) ==
    LET t == srcs[1][2]
        n == NRows(t)
    IN CASE fmt = "bed3" -> [k \in 1..n |-> RowCSE(t, k)]                                 \* chrom start end, 0-based
         [] fmt = "bed4" -> [k \in 1..n |-> RowCSE(t, k) \o <<GeneCell(t, k)>>]
         [] fmt = "bed"  -> IF Len(t.cols) = 3 THEN [k \in 1..n |-> RowCSE(t, k)]            \* BED-like: all columns
                            ELSE [k \in 1..n |-> t.rows[k]]
         [] fmt = "bed6" -> [k \in 1..n |-> RowCSE(t, k) \o <<GeneCell(t, k), SCell(t_zero), StrandCell(t, k, t_plus)>>]
         [] fmt \in {"interval", "interval_hdr"} ->                                        \* 1-based, strand, name
               (IF fmt = "interval_hdr"
                THEN <<TxtCells(<<t_HD, t_VN>>)>>
                     \o [j \in 1..Len(ChromNames(t)) |-> TxtCells(<<t_SQ, t_SN \o ChromNames(t)[j], t_LN>>)]
                ELSE <<>>)
               \o [k \in 1..n |-> Row1(t, k) \o <<StrandCell(t, k, t_plus), GeneCell(t, k)>>]
         [] fmt = "text" -> [k \in 1..n |-> Line1(LabelText(t, k))]                        \* chrom:start+1-end
         [] fmt = "text_gene" -> [k \in 1..n |-> Line1(LabelText(t, k) \o <<ch_space>> \o GeneCell(t, k)[4])]
         [] fmt = "tab" -> <<TxtCells(t.cols)>> \o [k \in 1..n |-> t.rows[k]]              \* header + rows, 0-based
         [] fmt = "seg" -> SegLayout(srcs)                                                 \* 1-based
         [] fmt = "picardhs" -> <<PicardHeader>>
               \o [k \in 1..n |-> Row1(t, k) \o <<ICell(EndOf(t, k) - StartOf(t, k)), GeneCell(t, k), Col(t, k, t_gc),
                                                 Col(t, k, t_depth), Col(t, k, t_ratio)>>]
         [] fmt = "gff" -> <<Line1(t_gffver)>>                                             \* GFF3, 1-based
               \o [k \in 1..n |-> <<Col(t, k, t_chromosome), SCell(t_verif), SCell(t_gene)>> \o Tail(Row1(t, k))
                                   \o <<SCell(t_dot), StrandCell(t, k, t_dot), SCell(t_dot),
                                        SCell(t_NameEq \o GeneCell(t, k)[4])>>]
         [] fmt = "gtf" ->                                                                 \* GTF, 1-based
               [k \in 1..n |-> <<Col(t, k, t_chromosome), SCell(t_verif), SCell(t_gene)>> \o Tail(Row1(t, k))
                                \o <<SCell(t_dot), StrandCell(t, k, t_dot), SCell(t_dot),
                                     SCell(t_gtf1 \o GeneCell(t, k)[4] \o t_gtf2 \o GeneCell(t, k)[4] \o t_gtf3)>>]
         [] fmt = "vcf"    -> VcfHeader(t) \o [k \in 1..n |-> VcfRow(t, k, FALSE)]         \* POS = start+1; END = end
         [] fmt = "vcf_sv" -> VcfHeader(t) \o [k \in 1..n |-> VcfRow(t, k, TRUE)]

(* what a *writer* must produce: the layout, except that the normalized_coverage column of a Picard      *)
(* per-target table (depth / mean depth, not a column of the abstract table) is not claimed             *)
WriteLayout(fmt, srcs) ==
    LET L == Layout(fmt, srcs) IN
    IF fmt # "picardhs" THEN L
    ELSE [k \in 1..Len(L) |-> IF k = 1 THEN L[k] ELSE [j \in 1..Len(L[k]) |-> IF j = 8 THEN AnyCell ELSE L[k][j]]]
(* how the specification spells a typed field as text (fixtures) *)
RenderCell(c) == CASE c[1] = "s" -> c[4]
                   [] c[1] = "i" -> IntText(c[3])
                   [] c[1] = "f" -> FixtureNum(CDec(c))
                   [] OTHER      -> <<>>
Render(lines) == [k \in 1..Len(lines) |-> [j \in 1..Len(lines[k]) |-> RenderCell(lines[k][j])]]
(* a token of a written file agrees with the typed field: text and integers exactly, floats to 6 digits *)
TokOK(tok, c) == CASE c[1] = "s"   -> tok = c[4]
                   [] c[1] = "i"   -> IsIntText(tok) /\ IntVal(tok) = c[3]
                   [] c[1] = "f"   -> LET p == ParseDecimal(tok) IN p.ok /\ NumEq6(ToDec(p), CDec(c))
                   [] c[1] = "any" -> TRUE
                   [] OTHER        -> tok = <<>>
FileMatches(file, lines) ==
    /\ Len(file) = Len(lines)
    /\ \A k \in 1..Len(lines) : /\ Len(file[k]) = Len(lines[k])
                                /\ \A j \in 1..Len(lines[k]) : TokOK(file[k][j], lines[k][j])

(* ================================================================= P-layer: expected tables = *)
(* The table that reading a Layout(fmt, srcs) file with reader rfmt must give, rows in file order  *)
(* (Canon then orders them): the same 0-based coordinates, the columns the format keeps.           *)
CarriesGene(fmt, t) == \/ fmt \in {"bed4", "bed6", "interval", "interval_hdr", "text_gene", "gff", "gtf", "picardhs"}
                       \/ fmt \in {"tab", "bed"} /\ HasCol(t, t_gene)
Expect(fmt, rfmt, srcs, seli) ==
    LET t == srcs[IF fmt = "seg" THEN seli + 1 ELSE 1][2]
        n == NRows(t)
        gene(k) == IF CarriesGene(fmt, t) THEN GeneCell(t, k) ELSE SCell(t_dash)
        mk(cols, f(_)) == Tbl(cols, [k \in 1..n |-> f(k)])
    IN CASE rfmt = "bed3" -> mk(CSE, LAMBDA k : RowCSE(t, k))
         [] rfmt = "bed4" -> mk(CSE \o <<t_gene>>, LAMBDA k : RowCSE(t, k) \o <<gene(k)>>)
         [] rfmt = "bed"  -> mk(CSE \o <<t_gene, t_strand>>,
                                LAMBDA k : RowCSE(t, k) \o <<gene(k), IF fmt = "bed6" THEN StrandCell(t, k, t_plus)
                                                                      ELSE SCell(t_dot)>>)
         [] rfmt = "interval" -> mk(CSE \o <<t_gene, t_strand>>,
                                    LAMBDA k : RowCSE(t, k) \o <<gene(k), StrandCell(t, k, t_plus)>>)
         [] rfmt = "text" -> mk(CSE \o <<t_gene>>, LAMBDA k : RowCSE(t, k) \o <<gene(k)>>)
         [] rfmt \in {"tab", "cna"} ->
               IF fmt = "seg"
               THEN mk(CNA5 \o (IF HasCol(t, t_probes) THEN <<t_probes>> ELSE <<>>),
                       LAMBDA k : RowCSE(t, k) \o <<SCell(t_dash), Col(t, k, t_log2)>>
                                  \o (IF HasCol(t, t_probes) THEN <<Col(t, k, t_probes)>> ELSE <<>>))
               ELSE Tbl(t.cols, t.rows)
         [] rfmt = "seg" -> mk(CNA5 \o (IF HasCol(t, t_probes) THEN <<t_probes>> ELSE <<>>),
                               LAMBDA k : RowCSE(t, k) \o <<SCell(t_dash), Col(t, k, t_log2)>>
                                          \o (IF HasCol(t, t_probes) THEN <<Col(t, k, t_probes)>> ELSE <<>>))
         [] rfmt = "picardhs" -> mk(CSE \o <<t_gene, t_gc, t_depth, t_ratio>>,
                                    LAMBDA k : RowCSE(t, k) \o <<gene(k), Col(t, k, t_gc), Col(t, k, t_depth),
                                                                 Col(t, k, t_ratio)>>)
         [] rfmt = "gff" -> mk(CSE \o <<t_gene, t_strand>>,
                               LAMBDA k : RowCSE(t, k) \o <<gene(k), StrandCell(t, k, t_dot)>>)
         [] rfmt = "vcf" -> mk(CSE \o <<t_ref, t_alt>>,
                               LAMBDA k : RowCSE(t, k) \o (IF fmt = "vcf" /\ EndOf(t, k) = StartOf(t, k) + 1
                                                           THEN TxtCells(<<t_A, t_G>>) ELSE TxtCells(<<t_N, t_DEL>>)))
         [] rfmt \in {"vcf-simple", "vcf-sites"} ->
               (* records without INFO/END: these two readers derive the end from allele lengths, which the  *)
               (* property does not cover; only chromosome and start are claimed for the mixed layout        *)
               IF fmt = "vcf_sv" THEN mk(CSE, LAMBDA k : RowCSE(t, k))
               ELSE mk(<<t_chromosome, t_start>>, LAMBDA k : <<Col(t, k, t_chromosome), Col(t, k, t_start)>>)

(* observed cell o agrees with expected cell e: strings and integers identical, floats to 6 digits *)
CellOK(e, o) == IF e[1] = "f" THEN IsNumCell(o) /\ NumEq6(CDec(e), CDec(o)) ELSE o = e
RowOK(er, orow) == Len(er) = Len(orow) /\ \A j \in 1..Len(er) : CellOK(er[j], orow[j])
(* same rows with the same multiplicities (order is judged separately by SortedOK) *)
BagOK(E, O) == /\ Len(E) = Len(O)
               /\ \A k \in 1..Len(E) : Cardinality({j \in 1..Len(O) : RowOK(E[k], O[j])})
                                        = Cardinality({j \in 1..Len(E) : RowOK(E[k], E[j])})
OnCols(e, o, cols) == IF NRows(e) = 0 THEN NRows(o) = 0
                      ELSE HasAll(o, cols) /\ BagOK(Project(e, cols).rows, Project(o, cols).rows)
CoordCols(e) == SelectSeq(CSE, LAMBDA c : HasCol(e, c))
IsFloatCol(e, c) == \E k \in 1..NRows(e) : Col(e, k, c)[1] = "f"
ExactCols(e) == SelectSeq(e.cols, LAMBDA c : ~IsFloatCol(e, c))
CoordsOK(e, o) == OnCols(e, o, CoordCols(e))           \* 0-based half-open coordinates as in the abstract table
ExactOK(e, o)  == OnCols(e, o, ExactCols(e))           \* coordinates, names, integer columns identical
ValuesOK(e, o) == OnCols(e, o, e.cols)                 \* ... and numbers equal to 6 significant digits

(* ================================================================= A-layer: writers ======== *)
(* one operator per writer function of skgenome/tabio (typed fields; tabio.write then prints them  *)
(* with DataFrame.to_csv(sep="\t", float_format="%.6g"))                                          *)
WriteBed3(t) == [k \in 1..NRows(t) |-> RowCSE(t, k)]                       \* bedio.write_bed3: loc[chromosome,start,end]
WriteBed4(t) == [k \in 1..NRows(t) |-> RowCSE(t, k) \o <<GeneCell(t, k)>>]  \* bedio.write_bed4: gene defaults to "-"
WriteBed(t)  == IF Len(t.cols) = 3 THEN WriteBed3(t)                       \* bedio.write_bed; its second test repeats
                ELSE [k \in 1..NRows(t) |-> t.rows[k]]                     \*   "== 3", so 4 columns take the default too
WriteInterval(t) ==                                                        \* picard.write_interval: start += 1
    [k \in 1..NRows(t) |-> <<Col(t, k, t_chromosome), ICell(StartOf(t, k) + 1), Col(t, k, t_end),
                             StrandCell(t, k, t_plus), GeneCell(t, k)>>]
ToLabel(chrom, start, end) ==                                              \* rangelabel.to_label: start + 1
    chrom \o <<ch_colon>> \o IntText(start + 1) \o <<ch_minus>> \o IntText(end)
WriteText(t) ==                                                            \* textcoord.write_text (repaired)
    [k \in 1..NRows(t) |-> Line1(ToLabel(ChromTxt(t, k), StartOf(t, k), EndOf(t, k)))]
WriteTextDoubleShift(t) ==                                                 \* ... as it was: start += 1, then to_label
    [k \in 1..NRows(t) |-> Line1(ToLabel(ChromTxt(t, k), StartOf(t, k) + 1, EndOf(t, k)))]
WriteTab(t) == <<TxtCells(t.cols)>> \o [k \in 1..NRows(t) |-> t.rows[k]]   \* tab.write_tab, header shown
WritePicardHs(t) ==                                                        \* picard.write_picard_hs (depth given)
    <<PicardHeader>> \o [k \in 1..NRows(t) |->
        <<Col(t, k, t_chromosome), ICell(StartOf(t, k) + 1), Col(t, k, t_end), ICell(EndOf(t, k) - StartOf(t, k)),
          Col(t, k, t_gene), Col(t, k, t_gc), Col(t, k, t_depth), AnyCell>>]  \* depth / mean(depth): not modelled

(* ================================================================= A-layer: readers ======== *)
Unsigned(s) == IF s # <<>> /\ s[1] \in {ch_plus, ch_minus} THEN Tail(s) ELSE s
RawLine(fields) == JoinWith(fields, ch_tab)
IsBlankLine(fields) == AllChars(RawLine(fields), IsSpace)
NonBlank(L) == SelectSeq(L, LAMBDA f : ~IsBlankLine(f))
(* pandas.read_csv column inference on the tokens of one column *)
NumOrNA(tok) == IsDecimalText(tok) \/ tok \in NAWords
AnyIntText(tok) == IsNatText(Unsigned(tok))                   \* an integer of any size (pandas: int64)
InferKind(toks) == IF toks # <<>> /\ \A k \in 1..Len(toks) : AnyIntText(toks[k]) THEN "i"
                   ELSE IF toks # <<>> /\ \A k \in 1..Len(toks) : NumOrNA(toks[k]) THEN "f"
                   ELSE "s"
ParseAs(kind, tok) == CASE kind = "i" -> IF IsIntText(tok) THEN ICell(IntVal(tok))
                                         ELSE FCell(ToDec(ParseDecimal(tok)))     \* beyond 32 bits: carried as its decimal
                        [] kind = "f" -> IF tok \in NAWords THEN NACell ELSE FCell(ToDec(ParseDecimal(tok)))
                        [] OTHER      -> IF tok \in NAWords THEN NACell ELSE SCell(tok)
FieldOr(f, j) == IF j <= Len(f) THEN f[j] ELSE <<>>
ColToks(L, j) == [k \in 1..Len(L) |-> FieldOr(L[k], j)]
InferCol(L, j) == LET toks == ColToks(L, j) kind == InferKind(toks) IN [k \in 1..Len(L) |-> ParseAs(kind, toks[k])]
StrCol(L, j) == [k \in 1..Len(L) |-> SCell(FieldOr(L[k], j))]                 \* dtype str, na_filter=False
(* str(x) of an inferred column (GenomicArray.__init__ / astype("str")): ints print canonically *)
AsStr(c) == CASE c[1] = "i" -> SCell(IntText(c[3])) [] c[1] = "s" -> c [] OTHER -> AnyCell
IntMinus1(tok) == ICell(IntVal(tok) - 1)
FromCols(names, colseqs, n) == Tbl(names, [k \in 1..n |-> [j \in 1..Len(names) |-> colseqs[j][k]]])
(* GenomicArray.sort_columns: required columns, then the others sorted as Python strings *)
SortCols(t, required) ==
    LET extras == SelectSeq(t.cols, LAMBDA c : ~InSeq(c, required))
    IN Project(t, required \o StableSortBy(extras, SeqLess))
(* GenomicArray.__init__ recasts a required column whose first element has the wrong type; for a            *)
(* CopyNumArray (cnvlib.read) that makes an all-integer log2 column float                                    *)
Recast(t, required) ==
    IF required # CNA5 \/ ~HasCol(t, t_log2) THEN t
    ELSE LET j == ColIdx(t, t_log2)
         IN Tbl(t.cols, [k \in 1..NRows(t) |-> [t.rows[k] EXCEPT ![j] = IF @[1] = "i" THEN FCell(DecOfInt(@[3])) ELSE @]])
(* tabio.read: into(dframe) ; result.sort_columns(); result.sort() *)
Finish(t, required) == IF HasAll(t, required) THEN Canon(SortCols(Recast(t, required), required)) ELSE EmptyTbl

(* bedio.read_bed: track2track, then split / int() per line *)
BedBody(L) ==
    LET L1 == IF L # <<>> /\ StartsWithSub(L[1][1], t_browser) THEN Tail(L) ELSE L
        L2 == IF L1 # <<>> /\ StartsWithSub(L1[1][1], t_track) THEN Tail(L1) ELSE L1
        stop == {k \in 1..Len(L2) : StartsWithSub(L2[k][1], t_track)}
    IN IF stop = {} THEN L2 ELSE TakeFirst(L2, MinOf(stop) - 1)
ReadBed(L) ==
    LET B == BedBody(L) IN
    Tbl(CSE \o <<t_gene, t_strand>>,
        [k \in 1..Len(B) |-> <<SCell(B[k][1]), ICell(IntVal(B[k][2])), ICell(IntVal(B[k][3])),
                               SCell(IF Len(B[k]) >= 4 THEN RStrip(B[k][4]) ELSE t_dash),
                               SCell(IF Len(B[k]) >= 6 THEN RStrip(B[k][6]) ELSE t_dot)>>])
(* picard.read_interval: comment="@", five named columns, inferred dtypes, gene NaN -> "-", start -= 1 *)
ReadInterval(L) ==
    LET B == SelectSeq(NonBlank(L), LAMBDA f : f[1] = <<>> \/ f[1][1] # ch_at)
        n == Len(B)
        gene == InferCol(B, 5)
    IN FromCols(<<t_chromosome, t_start, t_end, t_strand, t_gene>>,
                << [k \in 1..n |-> AsStr(InferCol(B, 1)[k])],
                   [k \in 1..n |-> IntMinus1(FieldOr(B[k], 2))],
                   [k \in 1..n |-> ICell(IntVal(FieldOr(B[k], 3)))],
                   InferCol(B, 4),
                   [k \in 1..n |-> IF gene[k][1] = "na" THEN SCell(t_dash) ELSE gene[k]] >>, n)
(* rangelabel.from_label on the raw line, pattern  (\w[\w.]* )?:(\d+)?-(\d+)?\s*(\S+)?  (no blank inside);  *)
(* start - 1;  gene "" -> "-"                                                                      *)
FromLabel(line) ==
    LET nc   == IF line # <<>> /\ IsWord(line[1])
                THEN 1 + LeadCount(Tail(line), LAMBDA c : IsWord(c) \/ c = ch_dot) ELSE 0
        r1   == DropFirst(line, nc + 1)                      \* after ':'
        ns   == LeadCount(r1, IsDigit)
        r2   == DropFirst(r1, ns + 1)                        \* after '-'
        ne   == LeadCount(r2, IsDigit)
        r3   == DropFirst(r2, ne)
        r4   == DropFirst(r3, LeadCount(r3, IsSpace))
        gene == TakeFirst(r4, LeadCount(r4, IsNonSpace))
    IN <<SCell(TakeFirst(line, nc)), ICell(DigitsVal(TakeFirst(r1, ns)) - 1), ICell(DigitsVal(TakeFirst(r2, ne))),
         SCell(IF gene = <<>> THEN t_dash ELSE gene)>>
ReadText(L) == Tbl(CSE \o <<t_gene>>, [k \in 1..Len(L) |-> FromLabel(RawLine(L[k]))])
(* tab.read_tab: header row names the columns; chromosome is str, everything else inferred *)
ReadTab(L) ==
    LET B == NonBlank(L) IN
    IF B = <<>> THEN EmptyTbl
    ELSE LET names == B[1]
             R == Tail(B)
         IN FromCols(names, [j \in 1..Len(names) |-> IF names[j] = t_chromosome THEN StrCol(R, j) ELSE InferCol(R, j)],
                     Len(R))
(* seg.parse_seg + read_seg: skip tab-less lines, header decides 5 or 6 columns, infer, str ids, start -= 1, *)
(* gene = "-", group by sample in order of appearance, pick one                                              *)
SegPick(L, selk, seli, selname) ==
    LET lead == LeadCount(L, LAMBDA f : Len(f) = 1)         \* n_tabs == 0
        hdr  == L[lead + 1]
        B    == NonBlank(DropFirst(L, lead + 1))
        six  == Len(hdr) = 6
        n    == Len(B)
        sid  == [k \in 1..n |-> AsStr(InferCol(B, 1)[k])]
        sids == FirstSeen(sid)
        want == IF selk = "none" THEN sids[1] ELSE IF selk = "index" THEN sids[seli + 1] ELSE SCell(selname)
        keep == {k \in 1..n : sid[k] = want}
        all  == FromCols(<<t_chromosome, t_start, t_end>> \o (IF six THEN <<t_probes>> ELSE <<>>) \o <<t_log2, t_gene>>,
                         << [k \in 1..n |-> AsStr(InferCol(B, 2)[k])],
                            [k \in 1..n |-> IntMinus1(FieldOr(B[k], 3))],
                            [k \in 1..n |-> ICell(IntVal(FieldOr(B[k], 4)))] >>
                         \o (IF six THEN <<InferCol(B, 5)>> ELSE <<>>)
                         \o << InferCol(B, IF six THEN 6 ELSE 5), [k \in 1..n |-> SCell(t_dash)] >>, n)
    IN Tbl(all.cols, SeqAt(all.rows, keep))
(* picard.read_picard_hs: fixed dtypes; length dropped; start -= 1 *)
ForcedFloat(tok) == FCell(ToDec(ParseDecimal(tok)))
ReadPicardHs(L) ==
    LET B == Tail(NonBlank(L)) IN
    Tbl(<<t_chromosome, t_start, t_end, t_gene, t_gc, t_depth, t_ratio>>,
        [k \in 1..Len(B) |-> <<SCell(B[k][1]), IntMinus1(B[k][2]), ICell(IntVal(B[k][3])), SCell(B[k][5]),
                               ForcedFloat(B[k][6]), ForcedFloat(B[k][7]), ForcedFloat(B[k][8])>>])
(* gff.read_gff: comment="#", nine str/int columns, start - 1, score "." -> NaN, sort by (chromosome as a    *)
(* string, start, end), gene = first  (Name|gene_id|gene_name|gene)[= ]"?(\S+?)"?(;|$)  in the attribute      *)
GffTags == <<t_tagName, t_tag_gene_id, t_tag_gene_name, t_gene>>
GffGeneAt(a, p, tag) ==     \* the captured gene if the pattern matches with the tag at position p, else <<>>
    IF ~(HasSubAt(a, tag, p) /\ p + Len(tag) <= Len(a) /\ a[p + Len(tag)] \in {ch_eq, ch_space}) THEN <<>>
    ELSE LET q0   == p + Len(tag) + 1
             q    == IF q0 <= Len(a) /\ a[q0] = ch_quote THEN q0 + 1 ELSE q0
             rest == DropFirst(a, q - 1)
             run  == LeadCount(rest, IsNonSpace)
             okAt(m) == \/ m = Len(rest) \/ rest[m + 1] = ch_semi
                        \/ (rest[m + 1] = ch_quote /\ (m + 1 = Len(rest) \/ rest[m + 2] = ch_semi))
             ms   == {m \in 1..run : okAt(m)}
         IN IF ms = {} THEN <<>> ELSE TakeFirst(rest, MinOf(ms))
GffGene(a) ==
    LET hits == {p \in 1..Len(a) : \E j \in 1..4 : GffGeneAt(a, p, GffTags[j]) # <<>>}
    IN IF hits = {} THEN t_dash
       ELSE LET p == MinOf(hits)
                j == MinOf({i \in 1..4 : GffGeneAt(a, p, GffTags[i]) # <<>>})
            IN GffGeneAt(a, p, GffTags[j])
GffLexLess(a, b) == \/ SeqLess(a[1][4], b[1][4])
                    \/ a[1][4] = b[1][4] /\ (a[2][3] < b[2][3] \/ (a[2][3] = b[2][3] /\ a[3][3] < b[3][3]))
ReadGff(L) ==
    LET B == SelectSeq(NonBlank(L), LAMBDA f : f[1] = <<>> \/ f[1][1] # ch_hash)
        rows == [k \in 1..Len(B) |->
                   <<SCell(B[k][1]), IntMinus1(B[k][4]), ICell(IntVal(B[k][5])), SCell(B[k][2]), SCell(B[k][3]),
                     IF B[k][6] = t_dot THEN NACell ELSE ForcedFloat(B[k][6]), SCell(B[k][7]), SCell(B[k][8]),
                     SCell(B[k][9]), SCell(GffGene(B[k][9]))>>]
    IN Tbl(CSE \o <<t_source, t_type, t_score, t_strand, t_phase, t_attribute, t_gene>>, StableSortBy(rows, GffLexLess))
(* vcfsimple: start -= 1; end = END from INFO, else start + max(0, len(alt) - len(ref))  (set_ends) *)
ParseEndFromInfo(info) ==
    LET p == FindSub(info, t_ENDeq) IN
    IF p = 0 THEN -1
    ELSE LET rest == DropFirst(info, p + 3)
             semi == Positions(rest, ch_semi)
             txt  == IF semi = {} THEN rest ELSE TakeFirst(rest, MinOf(semi) - 1)
         IN IntVal(txt)
VcfSimpleRow(f) ==
    LET start == IntVal(f[2]) - 1
        e0    == ParseEndFromInfo(f[8])
        grow  == Len(f[5]) - Len(f[4])
    IN <<SCell(f[1]), ICell(start), ICell(IF e0 = -1 THEN start + (IF grow > 0 THEN grow ELSE 0) ELSE e0),
         SCell(f[4]), SCell(f[5])>>
ReadVcfSimple(L) ==
    LET B == SelectSeq(NonBlank(L), LAMBDA f : f[1] = <<>> \/ f[1][1] # ch_hash)
    IN Tbl(CSE \o <<t_ref, t_alt>>, [k \in 1..Len(B) |-> VcfSimpleRow(B[k])])
(* vcfio.read_vcf through pysam: one row per ALT allele; start = POS - 1; end from _get_end.               *)
(* htslib/pysam keep END out of record.info, so the test `"END" in info` never held and the end was always  *)
(* start + len(alt), also for a symbolic allele (VcfEndAsItWas: <DEL> -> start + 5).  Repaired: a symbolic  *)
(* allele takes record.stop = INFO/END, or start + len(ref) without one.                                    *)
IsSymbolic(alt) == alt # <<>> /\ alt[1] = ch_lt
VcfEndAsItWas(start, alt, info, ref) == start + Len(alt)
VcfEndRepaired(start, alt, info, ref) ==
    IF IsSymbolic(alt) THEN (IF ParseEndFromInfo(info) # -1 THEN ParseEndFromInfo(info) ELSE start + Len(ref))
    ELSE start + Len(alt)
ReadVcfWith(L, EndOp(_, _, _, _)) ==
    LET B == SelectSeq(NonBlank(L), LAMBDA f : f[1] = <<>> \/ f[1][1] # ch_hash)
        perRec(f) == LET alts == IF f[5] = t_dot THEN <<>> ELSE SplitOn(f[5], ch_comma)
                     IN [j \in 1..Len(alts) |-> <<SCell(f[1]), IntMinus1(f[2]),
                                                  ICell(EndOp(IntVal(f[2]) - 1, alts[j], f[8], f[4])), SCell(f[4]),
                                                  SCell(alts[j])>>]
    IN Tbl(CSE \o <<t_ref, t_alt>>, Concat([k \in 1..Len(B) |-> perRec(B[k])]))
ReadVcf(L) == ReadVcfWith(L, VcfEndRepaired)

ReaderNames == {"bed3", "bed4", "bed", "interval", "text", "tab", "cna", "seg", "picardhs", "gff", "vcf",
                "vcf-simple", "vcf-sites"}
(* tabio.read(file, fmt): the reader function, then into(...), sort_columns(), sort() *)
ARead(rfmt, L, selk, seli, selname) ==
    CASE rfmt = "bed"      -> Finish(ReadBed(L), CSE)
      [] rfmt = "bed3"     -> Finish(Project(ReadBed(L), CSE), CSE)
      [] rfmt = "bed4"     -> Finish(Project(ReadBed(L), CSE \o <<t_gene>>), CSE)
      [] rfmt = "interval" -> Finish(ReadInterval(L), CSE)
      [] rfmt = "text"     -> Finish(ReadText(L), CSE)
      [] rfmt = "tab"      -> IF NonBlank(L) = <<>> THEN EmptyTbl ELSE Finish(ReadTab(L), CSE)
      [] rfmt = "cna"      -> IF NonBlank(L) = <<>> THEN EmptyTbl ELSE Finish(ReadTab(L), CNA5)
      [] rfmt = "seg"      -> Finish(SegPick(L, selk, seli, selname), CSE)
      [] rfmt = "picardhs" -> Finish(ReadPicardHs(L), CSE)
      [] rfmt = "gff"      -> Finish(ReadGff(L), CSE)
      [] rfmt = "vcf"      -> Finish(ReadVcf(L), CSE \o <<t_ref, t_alt>>)
      [] rfmt \in {"vcf-simple", "vcf-sites"} -> Finish(ReadVcfSimple(L), CSE)
(* columns on which the A-layer result is compared with the real one (the VCF readers add many more) *)
AFullCols(rfmt) == rfmt \notin {"vcf", "vcf-simple", "vcf-sites"}

(* ================================================================= A-layer: sniffing ======= *)
(* tabio.sniff_region_format: the first non-blank, non-track line decides, tests in this order.   *)
(* A regular expression that is a tab-joined list of pieces matches field by field: a piece       *)
(* followed by \t must consume its whole field, the last piece only a prefix unless it ends in $. *)
FullMatch(f, P(_)) == f # <<>> /\ AllChars(f, P)
PrefixMatch(f, P(_)) == f # <<>> /\ P(f[1])
RxText(f) ==       \* \w+:\d*-\d*.*
    LET f1 == f[1]
        nw == LeadCount(f1, IsWord)
        r1 == DropFirst(f1, nw + 1)
        r2 == DropFirst(r1, LeadCount(r1, IsDigit))
    IN nw >= 1 /\ nw < Len(f1) /\ f1[nw + 1] = ch_colon /\ r2 # <<>> /\ r2[1] = ch_minus
RxTab(f) == Len(f) >= 3 /\ f[1] = t_chromosome /\ f[2] = t_start /\ StartsWithSub(f[3], t_end)
RxInterval(f) ==   \* \w+ \t \d+ \t \d+ \t [.+-] \t \S+$
    /\ Len(f) = 5 /\ FullMatch(f[1], IsWord) /\ FullMatch(f[2], IsDigit) /\ FullMatch(f[3], IsDigit)
    /\ Len(f[4]) = 1 /\ f[4][1] \in {ch_dot, ch_plus, ch_minus} /\ FullMatch(f[5], IsNonSpace)
CommaDigits(x) ==  \* (\d+,)+
    /\ x # <<>> /\ x[Len(x)] = ch_comma /\ IsDigit(x[1])
    /\ \A k \in 1..Len(x) : (IsDigit(x[k]) \/ x[k] = ch_comma) /\ (k > 1 /\ x[k] = ch_comma => x[k - 1] # ch_comma)
RxRefflat(f) ==
    /\ Len(f) = 11 /\ FullMatch(f[1], IsNonSpace) /\ FullMatch(f[2], IsNonSpace) /\ FullMatch(f[3], IsWord)
    /\ Len(f[4]) = 1 /\ f[4][1] \in {ch_plus, ch_minus}
    /\ \A j \in 5..9 : FullMatch(f[j], IsDigit)
    /\ CommaDigits(f[10]) /\ CommaDigits(f[11])
RxGff(f) ==        \* \w+ \S+ \w+ \d+ \d+ \S+ [.?+-] [012.] .*
    /\ Len(f) >= 9 /\ FullMatch(f[1], IsWord) /\ FullMatch(f[2], IsNonSpace) /\ FullMatch(f[3], IsWord)
    /\ FullMatch(f[4], IsDigit) /\ FullMatch(f[5], IsDigit) /\ FullMatch(f[6], IsNonSpace)
    /\ Len(f[7]) = 1 /\ f[7][1] \in {ch_dot, 63, ch_plus, ch_minus}
    /\ Len(f[8]) = 1 /\ f[8][1] \in {48, 49, 50, ch_dot}
RxBed(f) == Len(f) >= 3 /\ FullMatch(f[1], IsNonSpace) /\ FullMatch(f[2], IsDigit) /\ PrefixMatch(f[3], IsDigit)
RxOf(name, f) == CASE name = "text" -> RxText(f) [] name = "tab" -> RxTab(f) [] name = "interval" -> RxInterval(f)
                   [] name = "refflat" -> RxRefflat(f) [] name = "gff" -> RxGff(f) [] name = "bed" -> RxBed(f)
                   [] OTHER -> FALSE
PatternNames == {"text", "tab", "interval", "refflat", "gff", "bed"}
(* the extension test: ext = text after the last dot; the code compares ext[1:] with the pattern names *)
ExtFormat(ext) == LET x == IF ext = <<>> THEN <<>> ELSE Tail(ext)
                  IN IF x = <<116,101,120,116>> THEN "text" ELSE IF x = <<116,97,98>> THEN "tab"
                     ELSE IF x = <<105,110,116,101,114,118,97,108>> THEN "interval"
                     ELSE IF x = <<114,101,102,102,108,97,116>> THEN "refflat"
                     ELSE IF x = <<103,102,102>> THEN "gff" ELSE IF x = <<98,101,100>> THEN "bed" ELSE ""
SniffLine(f, extfmt) ==   \* "" = no decision on this line (keep looking)
    LET f1 == f[1] IN
    IF extfmt # "" /\ RxOf(extfmt, f) THEN extfmt
    ELSE IF StartsWithSub(f1, t_gffversion) \/ RxGff(f) THEN "gff"
    ELSE IF StartsWithSub(f1, t_ffvcf) \/ (Len(f) >= 3 /\ f1 = t_hCHROM /\ f[2] = t_POS /\ StartsWithSub(f[3], t_ID)) THEN "vcf"
    ELSE IF f1 # <<>> /\ f1[1] = ch_hash THEN ""
    ELSE IF RxText(f) THEN "text"
    ELSE IF RxTab(f) THEN "tab"
    ELSE IF (f1 # <<>> /\ f1[1] = ch_at) \/ RxInterval(f) THEN "interval"
    ELSE IF RxRefflat(f) THEN "refflat"
    ELSE IF RxBed(f) THEN "bed"
    ELSE "error"
ASniff(L, ext) ==
    LET cand == {k \in 1..Len(L) : /\ ~IsBlankLine(L[k])
                                   /\ ~StartsWithSub(L[k][1], t_track) /\ ~StartsWithSub(L[k][1], t_browser)
                                   /\ SniffLine(L[k], ExtFormat(ext)) # ""}
    IN IF cand = {} THEN "" ELSE SniffLine(L[MinOf(cand)], ExtFormat(ext))
(* read_auto: nothing sniffed -> "bed3"; otherwise read(file, sniffed) *)
AAutoFmt(L, ext) == LET s == ASniff(L, ext) IN IF s = "" THEN "bed3" ELSE s

(* cnvlib.export.export_seg(files, chrom_ids=False): read_cna each file (sorted), seg.write_seg -> format_seg *)
(* per sample (ID, chrom, start + 1, end, [num.mark], seg.mean), concatenated; header shown                  *)
FormatSeg(sid, t) == SegRows(sid, t)
ExportSeg(srcs) == <<SegHeader(srcs[1][2])>>
                   \o Concat([m \in 1..Len(srcs) |-> FormatSeg(srcs[m][1], Finish(srcs[m][2], CNA5))])
WriterNames == {"bed3", "bed4", "bed", "interval", "text", "tab", "picardhs"}
AWrite(fmt, srcs) ==
    LET t == srcs[1][2] IN
    CASE fmt = "bed3" -> WriteBed3(t) [] fmt = "bed4" -> WriteBed4(t) [] fmt = "bed" -> WriteBed(t)
      [] fmt = "interval" -> WriteInterval(t) [] fmt = "text" -> WriteText(t) [] fmt = "tab" -> WriteTab(t)
      [] fmt = "picardhs" -> WritePicardHs(t) [] fmt = "seg" -> ExportSeg(srcs)
(* exact text of a written field: to_csv prints str / int as is and floats with %.6g *)
TokExact(tok, c) == CASE c[1] = "s"   -> tok = c[4]
                      [] c[1] = "i"   -> tok = IntText(c[3])
                      [] c[1] = "f"   -> tok \in Fmt6gSet(CDec(c))
                      [] c[1] = "any" -> TRUE
                      [] OTHER        -> tok = <<>>
AFileMatches(file, lines) ==
    /\ Len(file) = Len(lines)
    /\ \A k \in 1..Len(lines) : /\ Len(file[k]) = Len(lines[k])
                                /\ \A j \in 1..Len(lines[k]) : TokExact(file[k][j], lines[k][j])
(* one deterministic spelling of typed lines (used by the model checker to feed the modelled readers) *)
ATokens(lines) == [k \in 1..Len(lines) |-> [j \in 1..Len(lines[k]) |->
                      IF lines[k][j][1] = "f" THEN FmtG(CHOOSE x \in Round6Set(CDec(lines[k][j])) : TRUE, 6)
                      ELSE RenderCell(lines[k][j])]]
(* pandas' own strtod is not correctly rounded (observed: "3.37342e-248" -> 3.3734200000000003e-248), so the   *)
(* and drops digits beyond the 15th or so ("-0.0010593596184179921" -> -0.0010593596184179), so the modelled   *)
(* value of a parsed float is compared to 11-12 significant digits, not bit for bit                           *)
NearP(x, y, P) == {NoSignZero(a) : a \in RoundSetP(x, P)} \cap {NoSignZero(b) : b \in RoundSetP(y, P)} # {}
FloatNear(x, y) == NearP(x, y, 12) \/ NearP(x, y, 11)     \* holds whenever |x - y| < 4e-13 |x|; fails beyond 1e-11
ACellEq(o, a) == \/ a[1] = "any" \/ o = a
                 \/ (o[1] = "f" /\ a[1] = "f" /\ FloatNear(CDec(o), CDec(a)))
AEq(o, a) == /\ o.cols = a.cols /\ Len(o.rows) = Len(a.rows)
             /\ \A k \in 1..Len(a.rows) : \A j \in 1..Len(a.cols) : ACellEq(o.rows[k][j], a.rows[k][j])
ASame(o, a, rfmt) == IF AFullCols(rfmt) THEN AEq(o, a)
                     ELSE (NRows(a) = 0 /\ NRows(o) = 0) \/ (HasAll(o, a.cols) /\ AEq(Project(o, a.cols), a))

(* ================================================================= records, clauses ======== *)
(* record r: [op, fmt, rfmt, srcs, file, nl, outs, out2, sniffed, ext, selk, seli, id1, id2, id3, err]          *)
(*   srcs, outs : << <<sample id, table>>, .. >> (one entry except for SEG)                                    *)
(*   file, nl   : the tokenised file written by the code (write, rt, segrt) or fed to it (read, auto),         *)
(*                nl = its text ends with a newline (or is empty)                                              *)
(*   out2       : the table read_auto returned;  sniffed: what sniff_region_format returned                    *)
(*   id1..id3   : identifiers of the bytes of the first, second and third file written (equality only)        *)
Src(r) == r.srcs[1][2]
Out(r) == r.outs[1][2]
NoErr(r) == r.err = ""
SelIdx(r) == IF r.selk = "none" THEN 0 ELSE r.seli
SelName(r) == r.srcs[SelIdx(r) + 1][1]
Exp(r) == Expect(r.fmt, r.rfmt, r.srcs, SelIdx(r))
RTPairs == ({"bed3", "bed4", "bed"} \X {"bed3", "bed4", "bed"})
           \cup {<<"interval", "interval">>, <<"text", "text">>, <<"tab", "tab">>, <<"tab", "cna">>}
(* reader keeps everything the writer wrote, so a canonical table must come back byte for byte *)
BytesClaimed == ({"bed3"} \X {"bed3", "bed4", "bed"})
                \cup {<<"bed4", "bed4">>, <<"bed4", "bed">>, <<"interval", "interval">>, <<"text", "text">>,
                      <<"tab", "tab">>, <<"tab", "cna">>}
IsCanonical(t, fmt, rfmt) ==
    /\ Canon(t).rows = t.rows
    /\ fmt = "tab" => SortCols(t, IF rfmt = "cna" THEN CNA5 ELSE CSE).cols = t.cols
AutoReader(fmt) == CASE fmt \in {"bed3", "bed4", "bed6"} -> "bed" [] fmt \in {"interval", "interval_hdr"} -> "interval"
                     [] fmt \in {"text", "text_gene"} -> "text" [] fmt \in {"gff", "gtf"} -> "gff"
                     [] fmt = "tab" -> "tab" [] fmt \in {"vcf", "vcf_sv"} -> "vcf" [] OTHER -> "none"
CanonSrcs(srcs) == [m \in 1..Len(srcs) |-> <<srcs[m][1], Canon(srcs[m][2])>>]

Clauses(op) ==
    CASE op = "write" -> {"write_noerr", "write_layout"}
      [] op = "read"  -> {"read_noerr", "read_coords", "read_sorted", "read_values"}
      [] op = "auto"  -> {"auto_noerr", "auto_same_table"}
      [] op = "rt"    -> {"rt_noerr", "write_layout", "rt_coords", "rt_sorted", "rt_exact", "rt_floats6",
                          "rt_bytes_fixpoint", "rt_bytes_canonical"}
      [] op = "segrt" -> {"segrt_noerr", "seg_layout", "segrt_coords", "segrt_sorted", "segrt_exact", "segrt_floats6",
                          "segrt_bytes"}
      [] OTHER -> {}

SegAll(r, P(_, _)) == /\ Len(r.outs) = Len(r.srcs)
                      /\ \A m \in 1..Len(r.srcs) : /\ r.outs[m][1] = r.srcs[m][1]
                                                   /\ P(Expect("seg", "cna", r.srcs, m - 1), r.outs[m][2])
(* all clauses of one record at once, sharing the expected table and the comparisons (TLC caches LET values) *)
Verdict(r) ==
    LET ok     == NoErr(r)
        e      == Exp(r)
        o      == Out(r)
        coords == CoordsOK(e, o)
        sorted == SortedOK(o)
        exact  == ExactOK(e, o)
        values == ValuesOK(e, o)
        H(c) ==
          CASE c \in {"write_noerr", "read_noerr", "auto_noerr", "rt_noerr", "segrt_noerr"} -> ok
            (* (i) the file a writer produces is the format's layout of the table: a 1-based format carries start+1 *)
            [] c = "write_layout" -> ok => (r.nl /\ FileMatches(r.file, WriteLayout(r.fmt, r.srcs)))
            [] c = "seg_layout"   -> ok => (r.nl /\ FileMatches(r.file, SegLayout(CanonSrcs(r.srcs))))
            (* "each supported table format is read into 0-based half-open coordinates according to its convention" *)
            [] c = "read_coords"  -> ok => coords
            (* "rows sorted by natural chromosome order then start then end" *)
            [] c = "read_sorted"  -> ok => sorted
            (* the columns the format keeps come back with their values (names, labels; numbers to 6 digits) *)
            [] c = "read_values"  -> ok => values
            (* "format auto-detection selects the parser that yields the same table" *)
            [] c = "auto_same_table" -> ok => (IF NRows(o) = 0 THEN NRows(r.out2) = 0 ELSE r.out2 = o)   \* (an empty file has no columns to tell)
            (* "writing a table and reading it back returns identical coordinates, names and integer columns ..." *)
            [] c = "rt_coords"    -> ok => coords
            [] c = "rt_sorted"    -> ok => sorted
            [] c = "rt_exact"     -> ok => exact
            (* "... and numbers equal to 6 significant digits" *)
            [] c = "rt_floats6"   -> ok => values
            (* "and writing that result again produces identical bytes": the written form is a fixed point, and it *)
            (* is the first file itself when the table was already in canonical row and column order               *)
            [] c = "rt_bytes_fixpoint"  -> ok => r.id3 = r.id2
            [] c = "rt_bytes_canonical" -> (ok /\ <<r.fmt, r.rfmt>> \in BytesClaimed /\ IsCanonical(Src(r), r.fmt, r.rfmt))
                                           => r.id2 = r.id1
            (* the same through export seg followed by import-seg, per sample *)
            [] c = "segrt_coords"  -> ok => SegAll(r, CoordsOK)
            [] c = "segrt_sorted"  -> ok => \A m \in 1..Len(r.outs) : SortedOK(r.outs[m][2])
            [] c = "segrt_exact"   -> ok => SegAll(r, ExactOK)
            [] c = "segrt_floats6" -> ok => SegAll(r, ValuesOK)
            [] c = "segrt_bytes"   -> ok => r.id2 = r.id1
    IN [c \in Clauses(r.op) |-> H(c)]
Holds(c, r) == Verdict(r)[c]

(* ================================================================= premise ================= *)
WordOrDot(c) == IsWord(c) \/ c = ch_dot
NumberLike(s) == \/ IsDecimalText(s) \/ LowerSeq(Unsigned(s)) \in InfWordsLower \/ s \in NAWords \/ s \in BoolWords
                 \/ (AnyChar(s, IsDigit) /\ AllChars(s, LAMBDA c : IsDigit(c) \/ c \in {ch_dot, 101, 69}))
(* chromosome names: letters, digits, underscores, dots, starting with a letter/digit/underscore; a name that *)
(* pandas would take for a number must be a plain integer without leading zeros                              *)
NameOK(s) == /\ s # <<>> /\ Len(s) <= 40 /\ IsWord(s[1]) /\ AllChars(s, WordOrDot) /\ KeyComputable(s)
             /\ NumberLike(s) => CanonicalNatText(s)
(* gene labels: letters, digits, _ , . - ; not something pandas reads as a number / missing value / boolean *)
LabelChar(c) == IsWord(c) \/ c \in {ch_comma, ch_dot, ch_minus}
LabelOK(s) == s # <<>> /\ Len(s) <= 60 /\ AllChars(s, LabelChar) /\ ~NumberLike(s)
SidOK(s) == s # <<>> /\ Len(s) <= 30 /\ IsAlpha(s[1]) /\ AllChars(s, IsWord) /\ ~NumberLike(s)
ColNameOK(s) == s # <<>> /\ Len(s) <= 30 /\ IsAlpha(s[1]) /\ AllChars(s, IsWord) /\ ~NumberLike(s)
MaxCoordinate == 300000000
FloatOK(c) == /\ c[2] \in {0, 1}
              /\ \/ (c[4] = <<>> /\ c[3] = 0)                                       \* 0.0, -0.0
                 \/ /\ Len(c[4]) \in 1..17 /\ \A k \in 1..Len(c[4]) : c[4][k] \in 0..9
                    /\ c[4][1] # 0 /\ c[4][Len(c[4])] # 0 /\ c[3] \in -300..300     \* normal doubles
(* %.6g prints the float as an integer text ("3", "-0", "120000"), which pandas reads back as an integer *)
PrintsAsInt(c) == c[4] = <<>> \/ \E x \in Round6Set(CDec(c)) : x.e \in 0..5 /\ Len(x.d) <= x.e + 1   \* (at a tie: may)
(* not claimed: a -0.0 in a float column whose values all print as integers -- the column is re-read as int64, *)
(* the -0.0 becomes 0 and the second file says "0" where the first said "-0" (numbers equal, bytes not)         *)
NegZeroLost(t, j) == /\ \E k \in 1..NRows(t) : t.rows[k][j] = <<"f", 1, 0, <<>>>>
                     /\ \A k \in 1..NRows(t) : PrintsAsInt(t.rows[k][j])
Reserved == {t_chromosome, t_start, t_end, t_gene, t_strand}
TableOK(t) ==
    /\ HasAll(t, CSE)
    /\ \A i, j \in 1..Len(t.cols) : i # j => t.cols[i] # t.cols[j]
    /\ \A j \in 1..Len(t.cols) : ColNameOK(t.cols[j])
    /\ \A j \in 1..Len(t.cols) : (NRows(t) >= 1 /\ t.rows[1][j][1] = "f") => ~NegZeroLost(t, j)
    /\ \A k \in 1..NRows(t) :
         /\ Len(t.rows[k]) = Len(t.cols)
         /\ Col(t, k, t_chromosome)[1] = "s" /\ NameOK(ChromTxt(t, k))
         /\ Col(t, k, t_start)[1] = "i" /\ StartOf(t, k) \in 0..MaxCoordinate
         /\ Col(t, k, t_end)[1] = "i" /\ EndOf(t, k) \in 0..MaxCoordinate
         /\ HasCol(t, t_gene) => (Col(t, k, t_gene)[1] = "s" /\ LabelOK(Col(t, k, t_gene)[4]))
         /\ HasCol(t, t_strand) => (Col(t, k, t_strand)[1] = "s" /\ Col(t, k, t_strand)[4] \in {t_plus, t_dash, t_dot})
         /\ \A j \in 1..Len(t.cols) : t.cols[j] \notin Reserved =>
               /\ t.rows[k][j][1] \in {"i", "f"} /\ t.rows[k][j][1] = t.rows[1][j][1]
               /\ t.rows[k][j][1] = "f" => FloatOK(t.rows[k][j])
IsFloatColumn(t, c) == HasCol(t, c) /\ \A k \in 1..NRows(t) : Col(t, k, c)[1] = "f"
IsIntColumn(t, c)   == HasCol(t, c) /\ \A k \in 1..NRows(t) : Col(t, k, c)[1] = "i"
NeedsOK(fmt, rfmt, t) ==       \* what a layout / reader needs from the table
    /\ fmt \in {"bed"} => TakeFirst(t.cols, 3) = CSE
    /\ fmt = "picardhs" => (HasCol(t, t_gene) /\ IsFloatColumn(t, t_gc) /\ IsFloatColumn(t, t_depth)
                            /\ IsFloatColumn(t, t_ratio) /\ NRows(t) >= 1)
    /\ fmt = "seg" => (IsFloatColumn(t, t_log2) /\ NRows(t) >= 1 /\ (HasCol(t, t_probes) => IsIntColumn(t, t_probes)))
    /\ rfmt = "cna" => (HasCol(t, t_gene) /\ IsFloatColumn(t, t_log2))
    /\ fmt \in {"vcf", "vcf_sv"} => \A k \in 1..NRows(t) : StartOf(t, k) < EndOf(t, k)   \* a VCF record spans >= 1 base (END >= POS)
Premise(r) ==
    /\ r.srcs # <<>> /\ \A m \in 1..Len(r.srcs) : TableOK(r.srcs[m][2]) /\ NeedsOK(r.fmt, r.rfmt, r.srcs[m][2])
    /\ r.op = "write" => r.fmt \in WriterNames
    /\ r.op = "rt" => /\ <<r.fmt, r.rfmt>> \in RTPairs
                      /\ r.fmt = "bed" => Src(r).cols \in {CSE, CSE \o <<t_gene>>}
    /\ r.op \in {"read", "auto"} =>
          /\ r.fmt \in LayoutNames /\ r.rfmt \in ReaderNames
          /\ r.nl /\ r.file = Render(Layout(r.fmt, r.srcs))      \* the fixture is the specification's layout
    /\ r.op = "auto" =>
          /\ r.rfmt = AutoReader(r.fmt)
          /\ \A k \in 1..NRows(Src(r)) : AllChars(ChromTxt(Src(r), k), IsWord)    \* the alphabet the patterns accept
          /\ ExtFormat(r.ext) \in {"", IF r.rfmt = "interval" THEN "interval" ELSE r.rfmt}
    /\ (r.op = "segrt" \/ r.fmt = "seg") =>
          /\ Len(r.srcs) \in 1..4
          /\ \A m \in 1..Len(r.srcs) : SidOK(r.srcs[m][1]) /\ r.srcs[m][2].cols = r.srcs[1][2].cols
          /\ \A m, q \in 1..Len(r.srcs) : m # q => r.srcs[m][1] # r.srcs[q][1]
          /\ r.selk \in {"none", "index", "name"} /\ SelIdx(r) \in 0..(Len(r.srcs) - 1)
    /\ r.op = "segrt" => r.fmt = "seg" /\ r.rfmt = "cna" /\ \A m \in 1..Len(r.srcs) : NeedsOK("seg", "cna", r.srcs[m][2])

(* ================================================================= drift, triggers ========= *)
AReadRec(r, file) == ARead(r.rfmt, file, r.selk, r.seli, SelName(r))
Drift(r) ==
    /\ NoErr(r)
    /\ CASE r.op = "write" -> ~AFileMatches(r.file, AWrite(r.fmt, r.srcs))
         [] r.op = "rt"    -> ~AFileMatches(r.file, AWrite(r.fmt, r.srcs)) \/ ~ASame(Out(r), AReadRec(r, r.file), r.rfmt)
         [] r.op = "read"  -> ~ASame(Out(r), AReadRec(r, r.file), r.rfmt)
         [] r.op = "auto"  -> \/ r.sniffed # ASniff(r.file, r.ext)
                              \/ (AAutoFmt(r.file, r.ext) \in ReaderNames
                                  /\ ~ASame(r.out2, ARead(AAutoFmt(r.file, r.ext), r.file, "none", 0, <<>>), AAutoFmt(r.file, r.ext)))
         [] r.op = "segrt" -> \/ ~AFileMatches(r.file, AWrite("seg", r.srcs))
                              \/ \E m \in 1..Len(r.outs) :
                                    ~AEq(r.outs[m][2], Finish(SegPick(r.file, "name", 0, r.srcs[m][1]), CNA5))
         [] OTHER -> FALSE

KnownTriggers == {"TextWriterDoubleShift", "VcfSymbolicAltEnd"}
TriggerHolds(t, r) ==
    CASE t = "TextWriterDoubleShift" ->      \* any non-empty table written with the chr:start-end text writer
            r.op \in {"write", "rt"} /\ r.fmt = "text" /\ NRows(Src(r)) >= 1
      [] t = "VcfSymbolicAltEnd" ->          \* a record with a symbolic ALT and INFO/END whose span is not len("<DEL>")
            /\ r.op = "read" /\ r.rfmt = "vcf" /\ r.fmt \in {"vcf", "vcf_sv"}
            /\ \E k \in 1..NRows(Src(r)) : /\ (r.fmt = "vcf_sv" \/ EndOf(Src(r), k) # StartOf(Src(r), k) + 1)
                                           /\ EndOf(Src(r), k) # StartOf(Src(r), k) + Len(t_DEL)
      [] OTHER -> FALSE
=============================================================================
