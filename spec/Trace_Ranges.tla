--------------------------- MODULE Trace_Ranges ---------------------------
(* Trace validation for C07: one recorded call of the real code per record; verdicts are     *)
(* carried as state (total verdicts) and read from the dump.  Same shape as Trace_Intervals;  *)
(* the content operators of Ranges carry the prefix Rg because Ranges EXTENDS Intervals,      *)
(* which already defines Clauses/Holds/... for C06.                                           *)
EXTENDS Ranges, Json, IOUtils
Trace == JsonDeserialize(IOEnv.TRACE_FILE)
VARIABLES i, ph, failed, scope, triggers, drift, checked
vars == <<i, ph, failed, scope, triggers, drift, checked>>
Init == /\ i \in 1..Len(Trace) /\ ph = "call"
        /\ failed = {} /\ scope = TRUE /\ triggers = {} /\ drift = FALSE /\ checked = {}
Next == /\ ph = "call" /\ ph' = "ret" /\ UNCHANGED i
        /\ LET r == Trace[i] IN
           /\ scope' = RgPremise(r)
           /\ checked' = IF scope' THEN RgClauses(r.op) ELSE {}
           /\ failed' = {c \in checked' : ~RgHolds(c, r)}
           /\ triggers' = {t \in RgKnownTriggers : RgTriggerHolds(t, r)}
           /\ drift' = (scope' /\ failed' = {} /\ RgDrift(r))
Spec == Init /\ [][Next]_vars
NoFailure == failed = {}
=============================================================================
