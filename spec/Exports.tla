--------------------------- MODULE Exports ---------------------------
(* The export commands of CNVkit (cnvlib/export.py: export_bed, export_vcf/segments2vcf,     *)
(* export_seg -> skgenome/tabio/seg.py, merge_samples + fmt_jtv / fmt_cdt, export_nexus_basic *)
(* and the _cmd_export_* wrappers of cnvlib/commands.py).  Property C20.                      *)
(*                                                                                            *)
(* INPUT.  A segment / bin row is a tuple                                                     *)
(*     <<pfx, base, s, e, gene, probes, cn, qn, qd, lg>>                                      *)
(* chromosome name = pfx \o base (pfx \in {"chr", ""} is the naming style; base "X", "Y" or   *)
(* an autosome number), 0-based half-open [s, e), gene label, probe count, called copy number *)
(* (read only when the table has a cn column), and the log2 value in one of two encodings     *)
(* (record field lmode): "ratio" -- log2 = math.log2(qn/qd), the specification works with the *)
(* exact rational q = qn/qd = 2^log2; "grid" -- log2 = lg/1000 exactly as a decimal.          *)
(*                                                                                            *)
(* OUTPUT.  The text the real code writes is tokenised by the harness (tab-separated fields;  *)
(* VCF INFO split on ';' and '='; FORMAT / sample split on ':') into tokens                   *)
(*     <<text, kind, m, e>>                                                                   *)
(* kind "i": the text is a decimal integer literal (value m, e = 0); kind "d": a decimal /    *)
(* scientific literal of value m * 10^-e (m without trailing zeros, e >= 0); kind "s":        *)
(* anything else (m = e = 0).  The harness never interprets a token beyond that.              *)
(*                                                                                            *)
(* P-layer  = property C20 as stated: which records appear and which fields they carry.  It   *)
(*            is order-free (bags of records) because the statement fixes no order, and it    *)
(*            reads only the fields the statement names.                                      *)
(* A-layer  = export.py / call.py / seg.py case for case: whole output lines, in order.       *)
(* Verdicts come from the P-layer only; A-layer disagreement is MODEL-DRIFT.                  *)
EXTENDS Naturals, Integers, Sequences, FiniteSets, TLC

(* ===================================================================================== *)
(* 0. Karyotype (the part of Karyotype.tla this module needs, under Ex-names so that the  *)
(*    two can be reconciled later).  PAR table copied literally from cnvlib/params.py.    *)
(* ===================================================================================== *)
ExPrefixes == {"chr", ""}
ExGenomes  == {"none", "grch37", "grch38"}        \* "none": diploid_parx_genome is None
ExParTable ==
  [grch37 |-> [PAR1X |-> <<60000, 2699520>>,  PAR2X |-> <<154931043, 155260560>>,
               PAR1Y |-> <<10000, 2649520>>,  PAR2Y |-> <<59034049, 59363566>>],
   grch38 |-> [PAR1X |-> <<10000, 2781479>>,  PAR2X |-> <<155701382, 156030895>>,
               PAR1Y |-> <<10000, 2781479>>,  PAR2Y |-> <<56887902, 57217415>>]]
ExParOf(genome) == IF genome = "grch37" THEN ExParTable.grch37 ELSE ExParTable.grch38
ExWithin(s, e, iv) == s >= iv[1] /\ e <= iv[2]    \* (start >= par_start) & (end <= par_end)
ExInParX(s, e, genome) ==
    genome # "none" /\ (ExWithin(s, e, ExParOf(genome).PAR1X) \/ ExWithin(s, e, ExParOf(genome).PAR2X))
ExInParY(s, e, genome) ==
    genome # "none" /\ (ExWithin(s, e, ExParOf(genome).PAR1Y) \/ ExWithin(s, e, ExParOf(genome).PAR2Y))

(* ---- P-style: class of a segment and the copies it has in the reference / the germline *)
ExKind(base) == IF base = "X" THEN "X" ELSE IF base = "Y" THEN "Y" ELSE "auto"
ExClass(base, s, e, genome) ==
    CASE ExKind(base) = "X" -> IF ExInParX(s, e, genome) THEN "PARX" ELSE "X"
      [] ExKind(base) = "Y" -> IF ExInParY(s, e, genome) THEN "PARY" ELSE "Y"
      [] OTHER              -> "auto"
(* copies in the reference: ploidy on autosomes and on a diploid PAR of X; ploidy/2 on X   *)
(* under a haploid-X (male) reference; ploidy/2 on Y; 0 on the PAR of Y (never covered).    *)
ExRefCopies(class, ploidy, hapx) ==
    CASE class = "auto" -> ploidy
      [] class = "PARX" -> ploidy
      [] class = "X"    -> IF hapx THEN ploidy \div 2 ELSE ploidy
      [] class = "Y"    -> ploidy \div 2
      [] class = "PARY" -> 0
(* copies expected for the chromosome and the sample's sex *)
ExExpectCopies(class, ploidy, female) ==
    CASE class = "auto" -> ploidy
      [] class = "PARX" -> ploidy
      [] class = "X"    -> IF female THEN ploidy ELSE ploidy \div 2
      [] class = "Y"    -> IF female THEN 0 ELSE ploidy \div 2
      [] class = "PARY" -> 0

(* ---- A-style: cnary.py row masks; labels derive from the FIRST row's naming style       *)
ExXLabel(firstPfx) == IF firstPfx = "chr" THEN "chrX" ELSE "X"
ExYLabel(firstPfx) == IF firstPfx = "chr" THEN "chrY" ELSE "Y"
ExChrXFilter(fp, name, s, e, genome) == name = ExXLabel(fp) /\ ~ExInParX(s, e, genome)
ExChrYFilter(fp, name, s, e, genome) == name = ExYLabel(fp) /\ ~ExInParY(s, e, genome)
ExParYFilter(fp, name, s, e, genome) == name = ExYLabel(fp) /\ ExInParY(s, e, genome)
(* call.get_as_dframe_and_set_reference_and_expect_copies, assignment by assignment        *)
ExRefCopiesA(fp, name, s, e, ploidy, hapx, genome) ==
    IF ExParYFilter(fp, name, s, e, genome) THEN 0                          \* last assignment wins
    ELSE IF ExChrYFilter(fp, name, s, e, genome) THEN ploidy \div 2
    ELSE IF ExChrXFilter(fp, name, s, e, genome) THEN (IF hapx THEN ploidy \div 2 ELSE ploidy)
    ELSE ploidy
ExExpectCopiesA(fp, name, s, e, ploidy, female, genome) ==
    IF ExParYFilter(fp, name, s, e, genome) THEN 0
    ELSE IF ExChrYFilter(fp, name, s, e, genome) THEN (IF female THEN 0 ELSE ploidy \div 2)
    ELSE IF ExChrXFilter(fp, name, s, e, genome) THEN (IF female THEN ploidy ELSE ploidy \div 2)
    ELSE ploidy
(* call._reference_copies_pure: by lower-cased name only -- no PAR handling *)
ExRefCopiesPure(pfx, base, ploidy, hapx) ==
    IF pfx \in ExPrefixes /\ (base = "Y" \/ (hapx /\ base = "X")) THEN ploidy \div 2 ELSE ploidy

(* ===================================================================================== *)
(* 1. Rows, tokens, small helpers                                                         *)
(* ===================================================================================== *)
RPfx(r) == r[1]
RBase(r) == r[2]
RS(r) == r[3]
RE(r) == r[4]
RGene(r) == r[5]
RProbes(r) == r[6]
RCn(r) == r[7]
RQn(r) == r[8]
RQd(r) == r[9]
RLg(r) == r[10]
RName(r) == r[1] \o r[2]
Idx(t) == 1..Len(t)

TText(t) == t[1]
TKind(t) == t[2]
TIsInt(t) == t[2] = "i"
TInt(t) == t[3]
RECURSIVE NormDec(_, _)                      \* m * 10^-e without trailing zeros
NormDec(m, e) == IF m = 0 THEN <<0, 0>>
                 ELSE IF e > 0 /\ m % 10 = 0 THEN NormDec(m \div 10, e - 1) ELSE <<m, e>>
TIsNum(t) == t[2] \in {"i", "d"}
TNum(t) == IF t[2] = "i" THEN <<t[3], 0>> ELSE IF t[2] = "d" THEN NormDec(t[3], t[4]) ELSE <<0, -1>>
NoTok == <<"", "none", 0, 0>>

IntTok(n) == <<ToString(n), "i", n, 0>>
StrTok(s) == <<s, "s", 0, 0>>
DecTok(m, e) == LET n == NormDec(m, e) IN <<"", "d", n[1], n[2]>>   \* text not modelled
AnyTok == <<"*", "x", 0, 0>>                                       \* value not modelled
(* equality used by the drift diagnostic only *)
TokSame(a, b) == \/ a[2] = "x" \/ b[2] = "x"
                 \/ a[1] = b[1] /\ a[2] # "d" /\ b[2] # "d"
                 \/ TIsNum(a) /\ TIsNum(b) /\ TNum(a) = TNum(b)
LineSame(x, y) == Len(x) = Len(y) /\ \A k \in Idx(x) : TokSame(x[k], y[k])
LinesSame(x, y) == Len(x) = Len(y) /\ \A k \in Idx(x) : LineSame(x[k], y[k])

(* bags of tuples, as sequences in any order *)
CountIn(seq, x) == Cardinality({j \in Idx(seq) : seq[j] = x})
BagEq(s, t) == Len(s) = Len(t) /\ \A i \in Idx(s) : CountIn(s, s[i]) = CountIn(t, s[i])

RECURSIVE UniqFrom(_, _)                     \* distinct values in order of first appearance
UniqFrom(s, acc) == IF s = <<>> THEN acc
                    ELSE IF \E k \in Idx(acc) : acc[k] = Head(s) THEN UniqFrom(Tail(s), acc)
                    ELSE UniqFrom(Tail(s), Append(acc, Head(s)))
Uniq(s) == UniqFrom(s, <<>>)
RankIn(s, x) == CHOOSE k \in Idx(s) : s[k] = x /\ \A j \in 1..k-1 : s[j] # x
RECURSIVE FlatSeq(_)
FlatSeq(ss) == IF ss = <<>> THEN <<>> ELSE Head(ss) \o FlatSeq(Tail(ss))

(* round(r * q), q = qn/qd > 0, for r*q not exactly at k + 1/2 (premise NoTie) *)
RoundRQ(r, qn, qd) == (2 * r * qn + qd) \div (2 * qd)
AtTie(r, qn, qd) == (2 * r * qn) % (2 * qd) = qd

(* ===================================================================================== *)
(* 2. export bed / export vcf                                                             *)
(*    record: [op, via, tab, hascn, hasprobes, lmode, ploidy, hapx, female, genome, show,  *)
(*             labmode, label, sid, out, err]                                              *)
(*    out.rows: bed -- lines of 5 tokens; vcf -- records <<fix, info, fmt, smp>> with fix   *)
(*    the 7 tokens CHROM POS ID REF ALT QUAL FILTER, info a sequence of <<key, token>>      *)
(*    (a flag has token NoTok), fmt the FORMAT keys (strings), smp the sample-field tokens. *)
(*    out.hdr: vcf -- the tokens of the #CHROM line.                                        *)
(* ===================================================================================== *)
FirstPfx(tab) == IF tab = <<>> THEN "" ELSE RPfx(tab[1])
PClass(r, seg) == ExClass(RBase(seg), RS(seg), RE(seg), r.genome)

(* P: the copy number of a segment -- its cn column, or "round(r * 2^log2)" with r the copies *)
(*    its chromosome has in the reference                                                    *)
PCn(r, seg) == IF r.hascn THEN RCn(seg)
               ELSE RoundRQ(ExRefCopies(PClass(r, seg), r.ploidy, r.hapx), RQn(seg), RQd(seg))
(* P: "the copy number expected for their chromosome and the sample's sex" *)
PExpect(r, seg) == ExExpectCopies(PClass(r, seg), r.ploidy, r.female)

(* P: "every segment (show all), exactly those whose copy number differs from the ploidy    *)
(*    (ploidy), or exactly those differing from the copy number expected ... (variant)"      *)
PShown(r, seg) == CASE r.show = "all"     -> TRUE
                    [] r.show = "ploidy"  -> PCn(r, seg) # r.ploidy
                    [] r.show = "variant" -> PCn(r, seg) # PExpect(r, seg)
PVariants(r) == SelectSeq(r.tab, LAMBDA seg : PCn(r, seg) # PExpect(r, seg))

BedLineOK(ln) == Len(ln) = 5 /\ TIsInt(ln[2]) /\ TIsInt(ln[3]) /\ TIsInt(ln[5])
BedWellFormed(rows) == \A k \in Idx(rows) : BedLineOK(rows[k])
BedCoords(rows) == [k \in Idx(rows) |-> <<TText(rows[k][1]), TInt(rows[k][2]), TInt(rows[k][3])>>]
BedFull(rows) == [k \in Idx(rows) |-> <<TText(rows[k][1]), TInt(rows[k][2]), TInt(rows[k][3]), TInt(rows[k][5])>>]

(* ---- vcf record access *)
VFix(rec) == rec[1]
VInfo(rec) == rec[2]
VFmt(rec) == rec[3]
VSmp(rec) == rec[4]
InfoGet(info, key) ==
    LET ks == {k \in Idx(info) : info[k][1] = key}
    IN IF ks = {} THEN NoTok ELSE info[CHOOSE k \in ks : \A j \in ks : k <= j][2]
SmpGet(rec, key) ==
    LET ks == {k \in Idx(VFmt(rec)) : VFmt(rec)[k] = key /\ k <= Len(VSmp(rec))}
    IN IF ks = {} THEN NoTok ELSE VSmp(rec)[CHOOSE k \in ks : \A j \in ks : k <= j]
VcfRecOK(rec) == /\ Len(rec) = 4 /\ Len(VFix(rec)) = 7 /\ TIsInt(VFix(rec)[2])
                 /\ TIsInt(InfoGet(VInfo(rec), "END")) /\ TIsInt(InfoGet(VInfo(rec), "SVLEN"))
VcfWellFormed(rows) == \A k \in Idx(rows) : VcfRecOK(rows[k])
VKey(rec) == <<TText(VFix(rec)[1]), TInt(VFix(rec)[2]), TInt(InfoGet(VInfo(rec), "END"))>>
(* P: "POS = start (1 where start is 0), END = end" *)
PKey(seg) == <<RName(seg), IF RS(seg) = 0 THEN 1 ELSE RS(seg), RE(seg)>>
PType(r, seg) == IF PCn(r, seg) < PExpect(r, seg) THEN "DEL" ELSE "DUP"
Proj(seq, F(_)) == [k \in Idx(seq) |-> F(seq[k])]

(* ---- A-layer: export_bed *)
ACnBedAsItWas(r, seg) ==               \* segments["cn"]  or  absolute_pure(...).round()  -- before the repair (finding BedParCopies)
    IF r.hascn THEN RCn(seg)
    ELSE RoundRQ(ExRefCopiesPure(RPfx(seg), RBase(seg), r.ploidy, r.hapx), RQn(seg), RQd(seg))
(* what the repair proposed with finding BedParCopies computes (absolute_dataframe, as export_vcf does); *)
(* the repair has been made (fix: commit in /repo): ACnBed is this operator, the finding is closed       *)
ACnBed(r, seg) ==                      \* the repaired code: absolute_dataframe, as export_vcf
    IF r.hascn THEN RCn(seg)
    ELSE RoundRQ(ExRefCopiesA(FirstPfx(r.tab), RName(seg), RS(seg), RE(seg), r.ploidy, r.hapx, r.genome),
                 RQn(seg), RQd(seg))
AExpect(r, seg) == ExExpectCopiesA(FirstPfx(r.tab), RName(seg), RS(seg), RE(seg), r.ploidy, r.female, r.genome)
ARef(r, seg) == ExRefCopiesA(FirstPfx(r.tab), RName(seg), RS(seg), RE(seg), r.ploidy, r.hapx, r.genome)
ABedKeep(r, seg) == IF r.show = "ploidy" THEN ACnBed(r, seg) # r.ploidy
                    ELSE IF r.show = "variant" THEN ACnBed(r, seg) # AExpect(r, seg)
                    ELSE TRUE                                  \* no branch taken: every row
ABedLabel(r, seg) == CASE r.labmode = "genes" -> RGene(seg)    \* label None -> gene column
                       [] r.labmode = "id"    -> r.label       \* --sample-id
                       [] OTHER               -> r.sid         \* the segment file's sample id
ABed(r) == LET kept == SelectSeq(r.tab, LAMBDA seg : ABedKeep(r, seg))
           IN [hdr |-> <<>>, pre |-> <<>>,
               rows |-> [k \in Idx(kept) |->
                   <<StrTok(RName(kept[k])), IntTok(RS(kept[k])), IntTok(RE(kept[k])),
                     StrTok(ABedLabel(r, kept[k])), IntTok(ACnBed(r, kept[k]))>>]]

(* ---- A-layer: export_vcf / segments2vcf *)
ACnVcf(r, seg) ==                      \* segments["cn"]  or  absolute_dataframe(...)["absolute"].round()
    IF r.hascn THEN RCn(seg) ELSE RoundRQ(ARef(r, seg), RQn(seg), RQd(seg))
AVcfSkip(r, seg) == ACnVcf(r, seg) = AExpect(r, seg) \/ ~r.hasprobes     \* neutral, or probes not a digit string
AVcfRec(r, seg) ==
    LET cn == ACnVcf(r, seg)
        loss == cn < AExpect(r, seg)                           \* idx_losses
        ty == IF loss THEN "DEL" ELSE "DUP"
        len == RE(seg) - RS(seg)
        pos == IF RS(seg) = 0 THEN 1 ELSE RS(seg)              \* start.replace(0, 1)
        info == << <<"IMPRECISE", NoTok>>, <<"SVTYPE", StrTok(ty)>>, <<"END", IntTok(RE(seg))>>,
                   <<"SVLEN", IntTok(IF loss THEN -len ELSE len)>>, <<"FOLD_CHANGE", AnyTok>>,
                   <<"FOLD_CHANGE_LOG", IF r.lmode = "grid" THEN DecTok(RLg(seg), 3) ELSE AnyTok>>,
                   <<"PROBES", IntTok(RProbes(seg))>> >>
    IN << <<StrTok(RName(seg)), IntTok(pos), StrTok("."), StrTok("N"), StrTok("<" \o ty \o ">"),
            StrTok("."), StrTok(".")>>,
          info,
          IF loss THEN <<"GT", "GQ">> ELSE <<"GT", "GQ", "CN", "CNQ">>,
          IF loss THEN <<StrTok(IF cn = 0 THEN "1/1" ELSE "0/1"), IntTok(RProbes(seg))>>
          ELSE <<StrTok("0/1"), IntTok(0), IntTok(cn), IntTok(RProbes(seg))>> >>
AVcfCols(r) == <<"#CHROM", "POS", "ID", "REF", "ALT", "QUAL", "FILTER", "INFO", "FORMAT",
                 IF r.labmode = "id" THEN r.label ELSE r.sid>>
AVcf(r) == LET kept == SelectSeq(r.tab, LAMBDA seg : ~AVcfSkip(r, seg))
           IN [hdr |-> [k \in 1..10 |-> StrTok(AVcfCols(r)[k])], pre |-> <<>>,
               rows |-> [k \in Idx(kept) |-> AVcfRec(r, kept[k])]]
VcfRecSame(x, y) ==
    /\ Len(x) = 4 /\ LineSame(x[1], y[1])
    /\ Len(x[2]) = Len(y[2]) /\ \A k \in Idx(x[2]) : x[2][k][1] = y[2][k][1] /\ TokSame(x[2][k][2], y[2][k][2])
    /\ x[3] = y[3] /\ LineSame(x[4], y[4])

(* ===================================================================================== *)
(* 3. export seg / jtv / cdt / nexus-basic                                                *)
(*    record: [op, samples, enumerate, hasprobes, out, err]; samples = <<<<sid, tab>>, ...>> *)
(*    (one input file each, in command-line order; log2 in "grid" encoding);                *)
(*    out = [hdr: tokens of the header line, pre: further header lines (cdt: AID, EWEIGHT), *)
(*           rows: token lines]                                                             *)
(* ===================================================================================== *)
Sid(smp) == smp[1]
Tab(smp) == smp[2]
Sids(r) == [k \in Idx(r.samples) |-> Sid(r.samples[k])]
LgNum(seg) == NormDec(RLg(seg), 3)

(* ---- seg *)
SegLineOK(ln, hp) == /\ Len(ln) = (IF hp THEN 6 ELSE 5) /\ TIsInt(ln[3]) /\ TIsInt(ln[4])
                     /\ hp => TIsInt(ln[5])
SegWellFormed(r) == \A k \in Idx(r.out.rows) : SegLineOK(r.out.rows[k], r.hasprobes)
SegMeanTok(ln, hp) == IF hp THEN ln[6] ELSE ln[5]
SegProj(ln, hp, withChrom) ==
    <<TText(ln[1]), IF withChrom THEN TText(ln[2]) ELSE "", TInt(ln[3]), TInt(ln[4]),
      IF hp THEN TInt(ln[5]) ELSE 0, TNum(SegMeanTok(ln, hp))>>
AllSegs(r) == FlatSeq([k \in Idx(r.samples) |->
                  [j \in Idx(Tab(r.samples[k])) |-> <<Sid(r.samples[k]), Tab(r.samples[k])[j]>>]])
FirstNames(r) == Uniq([j \in Idx(Tab(r.samples[1])) |-> RName(Tab(r.samples[1])[j])])
(* create_chrom_ids: i-th distinct chromosome of the FIRST sample -> i, unless it is already *)
(* called str(i); names the first sample does not have stay as they are (chromosome.replace)  *)
ChromIdText(r, name) == IF \E k \in Idx(FirstNames(r)) : FirstNames(r)[k] = name
                        THEN ToString(RankIn(FirstNames(r), name)) ELSE name
(* P: "each sample's segments with 1-based starts, ends, probe counts and means under its    *)
(*    sample ID"                                                                             *)
PSegWant(r, chromText(_)) ==
    [k \in Idx(AllSegs(r)) |->
        LET sid == AllSegs(r)[k][1]  seg == AllSegs(r)[k][2]
        IN <<sid, chromText(seg), RS(seg) + 1, RE(seg), IF r.hasprobes THEN RProbes(seg) ELSE 0, LgNum(seg)>>]
AllNamesInFirst(r) == \A k \in Idx(AllSegs(r)) :
                         \E j \in Idx(FirstNames(r)) : FirstNames(r)[j] = RName(AllSegs(r)[k][2])

ASegHdr(r) == IF r.hasprobes THEN <<"ID", "chrom", "loc.start", "loc.end", "num.mark", "seg.mean">>
              ELSE <<"ID", "chrom", "loc.start", "loc.end", "seg.mean">>
ASegLine(r, sid, seg) ==
    LET chrom == IF r.enumerate THEN ChromIdText(r, RName(seg)) ELSE RName(seg)   \* chrom_ids False: no replace
        front == <<StrTok(sid), StrTok(chrom), IntTok(RS(seg) + 1), IntTok(RE(seg))>>
    IN front \o (IF r.hasprobes THEN <<IntTok(RProbes(seg))>> ELSE <<>>) \o <<DecTok(RLg(seg), 3)>>
ASeg(r) == [hdr |-> [k \in Idx(ASegHdr(r)) |-> StrTok(ASegHdr(r)[k])], pre |-> <<>>,
            rows |-> [k \in Idx(AllSegs(r)) |-> ASegLine(r, AllSegs(r)[k][1], AllSegs(r)[k][2])]]

(* ---- bins, labels, merge_samples *)
BinsOf(tab) == [k \in Idx(tab) |-> <<RName(tab[k]), RS(tab[k]), RE(tab[k]), RGene(tab[k])>>]
(* P: "inputs whose bins differ" -- as collections of bins (order-free) *)
BinsDiffer(r) == \E k \in Idx(r.samples) : ~BagEq(BinsOf(Tab(r.samples[k])), BinsOf(Tab(r.samples[1])))
DistinctIds(r) == \A j, k \in Idx(r.samples) : j # k => Sid(r.samples[j]) # Sid(r.samples[k])
(* the label of a bin: the statement does not fix its form; any of these identifies the bin *)
LabelForms == {"c:s-e:g", "c:s-e", "c:s1-e:g", "c:s1-e"}
LabelOf(form, seg) ==
    LET st == IF form \in {"c:s1-e:g", "c:s1-e"} THEN RS(seg) + 1 ELSE RS(seg)
        core == RName(seg) \o ":" \o ToString(st) \o "-" \o ToString(RE(seg))
    IN IF form \in {"c:s-e:g", "c:s1-e:g"} THEN core \o ":" \o RGene(seg) ELSE core
(* the column that belongs to sample k: the n-th column headed by its id, n = its rank among *)
(* the samples of that id (so every sample has its own column even when ids repeat)          *)
ColsHeaded(hdr, sid) == {j \in Idx(hdr) : TText(hdr[j]) = sid}
NthOf(S, n) == CHOOSE j \in S : Cardinality({i \in S : i < j}) = n - 1
OwnColumn(r, k) ==
    LET sid == Sid(r.samples[k])
        n == Cardinality({j \in 1..k : Sid(r.samples[j]) = sid})
        cs == ColsHeaded(r.out.hdr, sid)
    IN IF Cardinality(cs) >= n THEN NthOf(cs, n) ELSE 0
RowsWide(rows, w) == \A k \in Idx(rows) : Len(rows[k]) >= w
(* P: "one row per bin with the bin's label and each sample's log2 in its own column"        *)
(*    bins of sample 1 (all samples have the same bins when this is evaluated); row j of      *)
(*    sample k is the bin equal to row j's bin (sorted inputs: the same position)             *)
MergedTableOK(r) ==
    LET n == Len(r.samples)
        rows == r.out.rows
        bins == Tab(r.samples[1])
        cols == [k \in 1..n |-> OwnColumn(r, k)]
        width == Len(r.out.hdr)
        valOf(k, seg) ==      \* log2 of bin `seg` in sample k: the first row of that sample with the same bin
            LET t == Tab(r.samples[k])
                j == CHOOSE j \in Idx(t) : BinsOf(t)[j] = BinsOf(<<seg>>)[1] /\ \A i \in 1..j-1 : BinsOf(t)[i] # BinsOf(t)[j]
            IN LgNum(t[j])
        dupBins == \E i, j \in Idx(bins) : i # j /\ BinsOf(bins)[i] = BinsOf(bins)[j]
    IN /\ \A k \in 1..n : cols[k] # 0
       /\ RowsWide(rows, width)
       /\ \E L \in 1..width : \E form \in LabelForms :
             BagEq([i \in Idx(rows) |-> <<TText(rows[i][L]), [k \in 1..n |-> TNum(rows[i][cols[k]])]>>],
                   [i \in Idx(bins) |-> <<LabelOf(form, bins[i]),
                                          [k \in 1..n |-> IF dupBins THEN LgNum(Tab(r.samples[k])[i])
                                                          ELSE valOf(k, bins[i])]>>])

(* A: merge_samples -- files 2.. are checked in order: first the labels, then the id *)
ALabel(seg) == LabelOf("c:s-e:g", seg)
RECURSIVE AMergeErrFrom(_, _)
AMergeErrFrom(r, k) ==
    IF k > Len(r.samples) THEN ""
    ELSE IF BinsOf(Tab(r.samples[k])) # BinsOf(Tab(r.samples[1])) THEN "mismatch"
    ELSE IF Sid(r.samples[k]) \in {"chromosome", "start", "end", "gene", "label"}
                                  \cup {Sid(r.samples[j]) : j \in 1..k-1} THEN "duplicate"
    ELSE AMergeErrFrom(r, k + 1)
AMergeErr(r) == AMergeErrFrom(r, 2)
Empty == [hdr |-> <<>>, pre |-> <<>>, rows |-> <<>>]
AVals(r, i) == [k \in Idx(r.samples) |-> DecTok(RLg(Tab(r.samples[k])[i]), 3)]
StrToks(ss) == [k \in Idx(ss) |-> StrTok(ss[k])]
AJtv(r) == IF AMergeErr(r) # "" THEN Empty ELSE
    LET bins == Tab(r.samples[1])
    IN [hdr |-> StrToks(<<"CloneID", "Name">> \o Sids(r)), pre |-> <<>>,
        rows |-> [i \in Idx(bins) |-> <<StrTok("IMAGE:"), StrTok(ALabel(bins[i]))>> \o AVals(r, i)]]
ACdt(r) == IF AMergeErr(r) # "" THEN Empty ELSE
    LET bins == Tab(r.samples[1])
        n == Len(r.samples)
        arry(k) == "ARRY" \o (IF k < 10 THEN "00" ELSE IF k < 100 THEN "0" ELSE "") \o ToString(k) \o "X"
    IN [hdr |-> StrToks(<<"GID", "CLID", "NAME", "GWEIGHT">> \o Sids(r)),
        pre |-> << StrToks(<<"AID", "", "", "">> \o [k \in 1..n |-> arry(k - 1)]),
                   StrToks(<<"EWEIGHT", "", "", "">>) \o [k \in 1..n |-> IntTok(1)] >>,
        rows |-> [i \in Idx(bins) |->
                    <<StrTok("GENE" \o ToString(i - 1) \o "X"), StrTok("IMAGE:" \o ToString(i - 1)),
                      StrTok(ALabel(bins[i])), IntTok(1)>> \o AVals(r, i)]]
(* A: export_nexus_basic -- chromosome, start, end, gene, log2, probe = labels() = c:(s+1)-e *)
ANexus(r) ==
    LET bins == Tab(r.samples[1])
    IN [hdr |-> StrToks(<<"chromosome", "start", "end", "gene", "log2", "probe">>), pre |-> <<>>,
        rows |-> [i \in Idx(bins) |->
                    <<StrTok(RName(bins[i])), IntTok(RS(bins[i])), IntTok(RE(bins[i])), StrTok(RGene(bins[i])),
                      DecTok(RLg(bins[i]), 3), StrTok(LabelOf("c:s1-e", bins[i]))>>]]
(* P for nexus: one row per bin with the bin's label and the sample's log2 in a column of its own *)
NexusTableOK(r) ==
    LET rows == r.out.rows
        bins == Tab(r.samples[1])
        width == Len(r.out.hdr)
        valcols == ColsHeaded(r.out.hdr, "log2") \cup ColsHeaded(r.out.hdr, Sid(r.samples[1]))
    IN /\ RowsWide(rows, width)
       /\ \E L \in 1..width : \E J \in valcols : \E form \in LabelForms :
             BagEq([i \in Idx(rows) |-> <<TText(rows[i][L]), TNum(rows[i][J])>>],
                   [i \in Idx(bins) |-> <<LabelOf(form, bins[i]), LgNum(bins[i])>>])

(* ===================================================================================== *)
(* 4. Clauses (P-layer), premise, A-layer dispatch, drift, known findings                 *)
(* ===================================================================================== *)
MergeOps == {"jtv", "cdt"}
TableOps == {"seg", "jtv", "cdt", "nexus"}
Clauses(op) ==
    CASE op = "bed"   -> {"bed_noerr", "bed_wellformed", "bed_lists_exactly", "bed_copy_number"}
      [] op = "vcf"   -> {"vcf_noerr", "vcf_wellformed", "vcf_one_per_variant", "vcf_del_dup", "vcf_svlen",
                          "vcf_gain_cn"}
      [] op = "seg"   -> {"seg_noerr", "seg_wellformed", "seg_rows", "seg_chrom"}
      [] op = "jtv"   -> {"jtv_refuses_mismatch", "jtv_accepts_matching", "jtv_rows"}
      [] op = "cdt"   -> {"cdt_refuses_mismatch", "cdt_accepts_matching", "cdt_rows"}
      [] op = "nexus" -> {"nexus_noerr", "nexus_rows"}
      [] OTHER        -> {}

NoErr(r) == r.err = ""
Holds(c, r) ==
    CASE c \in {"bed_noerr", "vcf_noerr", "seg_noerr", "nexus_noerr"} -> NoErr(r)
      (* every BED line: chromosome, integer start, integer end, label, "the integer copy number" *)
      [] c = "bed_wellformed" -> NoErr(r) => BedWellFormed(r.out.rows)
      (* the listed segments are exactly the selected ones, "with 0-based coordinates" (the input's own) *)
      [] c = "bed_lists_exactly" ->
            NoErr(r) => /\ BedWellFormed(r.out.rows)
                        /\ BagEq(BedCoords(r.out.rows),
                                 Proj(SelectSeq(r.tab, LAMBDA seg : PShown(r, seg)),
                                      LAMBDA seg : <<RName(seg), RS(seg), RE(seg)>>))
      (* ... each with its copy number (cn column, or round(r * 2^log2)) *)
      [] c = "bed_copy_number" ->
            NoErr(r) => /\ BedWellFormed(r.out.rows)
                        /\ BagEq(BedFull(r.out.rows),
                                 Proj(SelectSeq(r.tab, LAMBDA seg : PShown(r, seg)),
                                      LAMBDA seg : <<RName(seg), RS(seg), RE(seg), PCn(r, seg)>>))
      [] c = "vcf_wellformed" -> NoErr(r) => VcfWellFormed(r.out.rows)
      (* "one record per segment of that last kind and no others: POS = start (1 where start is 0), END = end" *)
      [] c = "vcf_one_per_variant" ->
            NoErr(r) => /\ VcfWellFormed(r.out.rows)
                        /\ BagEq(Proj(r.out.rows, VKey), Proj(PVariants(r), PKey))
      (* "SVTYPE and ALT are DEL when the copy number is below the expected one and DUP when above" *)
      [] c = "vcf_del_dup" ->
            NoErr(r) => /\ VcfWellFormed(r.out.rows)
                        /\ BagEq(Proj(r.out.rows, LAMBDA rec : <<VKey(rec), TText(InfoGet(VInfo(rec), "SVTYPE")),
                                                                 TText(VFix(rec)[5])>>),
                                 Proj(PVariants(r), LAMBDA seg : <<PKey(seg), PType(r, seg),
                                                                   "<" \o PType(r, seg) \o ">">>))
      (* "SVLEN = +-(end - start) with the matching sign" *)
      [] c = "vcf_svlen" ->
            NoErr(r) => /\ VcfWellFormed(r.out.rows)
                        /\ BagEq(Proj(r.out.rows, LAMBDA rec : <<VKey(rec), TInt(InfoGet(VInfo(rec), "SVLEN"))>>),
                                 Proj(PVariants(r), LAMBDA seg :
                                        <<PKey(seg), IF PType(r, seg) = "DEL" THEN RS(seg) - RE(seg)
                                                     ELSE RE(seg) - RS(seg)>>))
      (* "the sample field carries the copy number for gains": the CN key of FORMAT *)
      [] c = "vcf_gain_cn" ->
            NoErr(r) => /\ VcfWellFormed(r.out.rows)
                        /\ LET dups == SelectSeq(r.out.rows, LAMBDA rec : TText(InfoGet(VInfo(rec), "SVTYPE")) = "DUP")
                               gains == SelectSeq(PVariants(r), LAMBDA seg : PType(r, seg) = "DUP")
                           IN /\ \A k \in Idx(dups) : TIsInt(SmpGet(dups[k], "CN"))
                              /\ BagEq(Proj(dups, LAMBDA rec : <<VKey(rec), TInt(SmpGet(rec, "CN"))>>),
                                       Proj(gains, LAMBDA seg : <<PKey(seg), PCn(r, seg)>>))
      [] c = "seg_wellformed" -> NoErr(r) => SegWellFormed(r)
      (* "each sample's segments with 1-based starts, ends, probe counts and means under its sample ID" *)
      [] c = "seg_rows" ->
            NoErr(r) => /\ SegWellFormed(r)
                        /\ BagEq(Proj(r.out.rows, LAMBDA ln : SegProj(ln, r.hasprobes, FALSE)),
                                 PSegWant(r, LAMBDA seg : ""))
      (* the chromosome of each row: its name; with --enumerate-chroms ("replace chromosome names with  *)
      (* sequential integer IDs") the rank of the name among the first sample's chromosomes -- decided  *)
      (* only when every chromosome occurs in the first sample (the help text says no more)             *)
      [] c = "seg_chrom" ->
            NoErr(r) => /\ SegWellFormed(r)
                        /\ IF ~r.enumerate
                           THEN BagEq(Proj(r.out.rows, LAMBDA ln : SegProj(ln, r.hasprobes, TRUE)),
                                      PSegWant(r, RName))
                           ELSE AllNamesInFirst(r) =>
                                BagEq(Proj(r.out.rows, LAMBDA ln : SegProj(ln, r.hasprobes, TRUE)),
                                      PSegWant(r, LAMBDA seg : ChromIdText(r, RName(seg))))
      (* "refuse inputs whose bins differ" *)
      [] c \in {"jtv_refuses_mismatch", "cdt_refuses_mismatch"} -> BinsDiffer(r) => ~NoErr(r)
      (* inputs with the same bins and distinct sample ids are not refused (repeated ids may be) *)
      [] c \in {"jtv_accepts_matching", "cdt_accepts_matching"} -> (~BinsDiffer(r) /\ DistinctIds(r)) => NoErr(r)
      (* "one row per bin with the bin's label and each sample's log2 in its own column" *)
      [] c \in {"jtv_rows", "cdt_rows"} -> (NoErr(r) /\ ~BinsDiffer(r)) => MergedTableOK(r)
      [] c = "nexus_rows" -> NoErr(r) => NexusTableOK(r)

(* ---- premise: what the quantifier covers *)
DistinctCoords(tab) == \A i, j \in Idx(tab) :
    i # j => <<RName(tab[i]), RS(tab[i]), RE(tab[i])>> # <<RName(tab[j]), RS(tab[j]), RE(tab[j])>>
RowSane(seg) == /\ RPfx(seg) \in ExPrefixes /\ 0 <= RS(seg) /\ RS(seg) < RE(seg) /\ RProbes(seg) >= 0
TabSane(tab) == /\ \A k \in Idx(tab) : RowSane(tab[k])
                /\ \A k \in Idx(tab) : RPfx(tab[k]) = FirstPfx(tab)         \* one naming style per table
NoTie(r, seg) ==                      \* round(r * 2^log2) is not decided by a rounding tie
    /\ RQn(seg) > 0 /\ RQd(seg) > 0
    /\ \A ref \in {ExRefCopies(PClass(r, seg), r.ploidy, r.hapx),
                   ExRefCopiesPure(RPfx(seg), RBase(seg), r.ploidy, r.hapx),
                   ARef(r, seg)} : ~AtTie(ref, RQn(seg), RQd(seg))
Premise(r) ==
    IF r.op \in {"bed", "vcf"}
    THEN /\ TabSane(r.tab) /\ r.ploidy >= 1 /\ r.genome \in ExGenomes
         /\ r.op = "bed" => r.show \in {"all", "ploidy", "variant"}
         /\ r.hascn => \A k \in Idx(r.tab) : RCn(r.tab[k]) >= 0
         /\ ~r.hascn => (r.lmode = "ratio" /\ \A k \in Idx(r.tab) : NoTie(r, r.tab[k]))
         /\ r.op = "vcf" => r.hasprobes         \* rows whose probes field is not a digit string are skipped by design (#53)
    ELSE /\ r.samples # <<>>
         /\ \A k \in Idx(r.samples) : TabSane(Tab(r.samples[k])) /\ Tab(r.samples[k]) # <<>>
         /\ r.op = "nexus" => Len(r.samples) = 1
         (* jtv / cdt: the bins of one file are distinct regions (no two rows with the same chromosome,  *)
         (* start and end), so "the same bins" does not depend on how a reader orders tied rows          *)
         /\ r.op \in MergeOps => \A k \in Idx(r.samples) : DistinctCoords(Tab(r.samples[k]))

ALayer(r) ==
    CASE r.op = "bed"   -> ABed(r)
      [] r.op = "vcf"   -> AVcf(r)
      [] r.op = "seg"   -> ASeg(r)
      [] r.op = "jtv"   -> AJtv(r)
      [] r.op = "cdt"   -> ACdt(r)
      [] r.op = "nexus" -> ANexus(r)
AErr(r) == IF r.op \in MergeOps THEN AMergeErr(r) ELSE ""
WithALayer(r) == [r EXCEPT !.out = ALayer(r), !.err = AErr(r)]

Drift(r) ==
    LET a == ALayer(r) IN
    \/ (r.err = "") # (AErr(r) = "")
    \/ /\ r.err = ""
       /\ \/ ~LineSame(r.out.hdr, a.hdr)
          \/ ~LinesSame(r.out.pre, a.pre)
          \/ IF r.op = "vcf"
             THEN ~(Len(r.out.rows) = Len(a.rows) /\ \A k \in Idx(a.rows) : VcfRecSame(r.out.rows[k], a.rows[k]))
             ELSE ~LinesSame(r.out.rows, a.rows)

(* ---- known findings *)
(* BedParCopies: export_bed computes the copy number of a table without cn column with        *)
(* absolute_pure, which takes the reference copies from the chromosome NAME only; the          *)
(* diploid_parx_genome it was given is used for the expected copies but not here (export_vcf   *)
(* uses absolute_dataframe, which honours it).  Visible when a PAR segment's rounded copy      *)
(* number differs between the two reference values.                                            *)
BedParCopies(r) ==
    /\ r.op = "bed" /\ ~r.hascn /\ r.genome # "none"
    /\ \E k \in Idx(r.tab) :
          LET seg == r.tab[k] IN
          /\ PClass(r, seg) \in {"PARX", "PARY"}
          /\ RoundRQ(ExRefCopiesPure(RPfx(seg), RBase(seg), r.ploidy, r.hapx), RQn(seg), RQd(seg))
               # RoundRQ(ExRefCopies(PClass(r, seg), r.ploidy, r.hapx), RQn(seg), RQd(seg))
KnownTriggers == {"BedParCopies"}
TriggerHolds(t, r) == CASE t = "BedParCopies" -> BedParCopies(r)
                        [] OTHER -> FALSE
TriggerClauses(t) == CASE t = "BedParCopies" -> {"bed_lists_exactly", "bed_copy_number"}
                       [] OTHER -> {}
=============================================================================
