--------------------------- MODULE MC_Autobin ---------------------------
(* Design check + enumerator for X03 / Autobin: every input of the small scope, one call -> ret step; the invariant   *)
(* evaluates the A-layer (with the findings repaired: byname = fb = TRUE, see Autobin.HybridCoded)         *)
(* and checks every P-layer clause on it.  The dump of this run is replayed into the real code (direction 1):         *)
(*   binsize  (bp_per_bin x target limits x antitarget limits) x the whole depth grid, through do_autobin with        *)
(*            autobin.hybrid wrapped to return the depths                                                           *)
(*   midsize  every sequence of <= MaxFiles file sizes over 0..MaxSize                                              *)
(*   autobin  src = "table": mapped-read counts {0, 4, 10}^3 on contigs of 100 / 200 / 150 bases x read length       *)
(*            x method x access tables x target tables (chromosome order as / unlike the BAM header, a chromosome     *)
(*            fully targeted, overlapping targets, none / empty) x supplied target depth                             *)
EXTENDS Autobin
CONSTANTS Ops, MaxFiles, MaxSize, Bps, Mapped

(* depth grid (cfg files cannot hold tuples): 0, dyadic values (exact halves occur), thirds *)
DepthGrid == << <<0, 1>>, <<1, 4>>, <<1, 2>>, <<2, 3>>, <<1, 1>>, <<4, 3>>, <<3, 2>>, <<2, 1>>, <<5, 2>>, <<3, 1>>,
                <<7, 2>>, <<5, 1>>, <<8, 1>>, <<40, 1>>, <<200, 3>> >>
NG == Len(DepthGrid)
Depths == [k \in 1..NG |-> [tn |-> DepthGrid[k][1], td |-> DepthGrid[k][2],
                            an |-> DepthGrid[NG + 1 - k][1], ad |-> DepthGrid[NG + 1 - k][2], anone |-> k = 2]]
TLimits == {<<0, 20>>, <<20, 50>>, <<20, 400>>, <<60, 60>>, <<0, 100000>>}
ALimits == {<<5, 150>>, <<30, 30>>}
BsInputs == {[op |-> "binsize", bpn |-> b, bpd |-> d, tmin |-> t[1], tmax |-> t[2], amin |-> a[1], amax |-> a[2],
              depths |-> Depths, out |-> <<>>, err |-> ""] : b \in Bps, d \in {1, 2}, t \in TLimits, a \in ALimits}

RECURSIVE SeqsUpTo(_)
SeqsUpTo(n) == IF n = 0 THEN {<<>>} ELSE LET p == SeqsUpTo(n - 1) IN p \cup {Append(s, x) : s \in {q \in p : Len(q) = n - 1}, x \in 0..MaxSize}
MsInputs == {[op |-> "midsize", sizes |-> s, out |-> 0, err |-> ""] : s \in SeqsUpTo(MaxFiles)}

CLens == <<100, 200, 150>>
AccessTables == {<<>>, << <<1, 0, 50>>, <<2, 0, 200>> >>, << <<3, 10, 60>>, <<1, 0, 100>>, <<1, 50, 100>> >>}
TargetTables == {<< <<1, 10, 20>>, <<2, 50, 80>>, <<3, 0, 30>> >>,          \* chromosome order of the BAM header
                 << <<1, 10, 20>>, <<3, 0, 30>>, <<2, 50, 80>> >>,          \* another order
                 << <<2, 0, 200>>, <<3, 5, 15>> >>,                         \* contig 2 fully targeted
                 << <<1, 0, 10>>, <<1, 5, 25>>, <<3, 100, 150>> >>}         \* overlapping targets
TDepths == {<<1, 2>>, <<3, 1>>}
Base(m, mp, r2) == [op |-> "autobin", method |-> m, src |-> "table", bpn |-> 100, bpd |-> 1, tmin |-> 2, tmax |-> 500,
                    amin |-> 5, amax |-> 2000, contigs |-> [c \in 1..3 |-> <<CLens[c], mp[c]>>], rl2 |-> r2,
                    has_targets |-> FALSE, targets |-> <<>>, has_access |-> FALSE, access |-> <<>>, tdn |-> 0, tdd |-> 1,
                    reads |-> <<>>, out |-> <<>>, big |-> FALSE, err |-> ""]
MappedVecs == {<<a, b, c>> : a \in Mapped, b \in Mapped, c \in Mapped} \ {<<0, 0, 0>>}
WgsInputs == {[Base("wgs", mp, r2) EXCEPT !.has_access = (acc # <<>>), !.access = acc]
                 : mp \in MappedVecs, r2 \in {20, 21}, acc \in AccessTables}
HybInputs == {[Base("hybrid", mp, r2) EXCEPT !.has_targets = TRUE, !.targets = tg, !.has_access = (acc # <<>>),
                                             !.access = acc, !.tdn = T[1], !.tdd = T[2]]
                 : mp \in MappedVecs, r2 \in {20, 21}, tg \in TargetTables, T \in TDepths,
                   acc \in {<<>>, << <<1, 0, 100>>, <<2, 20, 120>>, <<3, 0, 150>> >>}}
AmpInputs == {[Base("amplicon", <<4, 4, 4>>, 20) EXCEPT !.has_targets = ht, !.targets = tg, !.tdn = T[1], !.tdd = T[2]]
                 : ht \in BOOLEAN, tg \in {<<>>, << <<1, 10, 20>>, <<2, 50, 80>> >>}, T \in TDepths}
   \cup {[Base("hybrid", <<4, 4, 4>>, 20) EXCEPT !.has_targets = ht, !.targets = <<>>] : ht \in BOOLEAN}
AbInputs == WgsInputs \cup HybInputs \cup AmpInputs

VARIABLES inp, ph
vars == <<inp, ph>>
Init == /\ ph = "call"
        /\ inp \in (IF "binsize" \in Ops THEN BsInputs ELSE {}) \cup (IF "midsize" \in Ops THEN MsInputs ELSE {})
                   \cup (IF "autobin" \in Ops THEN AbInputs ELSE {})
Next == ph = "call" /\ ph' = "ret" /\ UNCHANGED inp
Spec == Init /\ [][Next]_vars

(* the A-layer's output as a record the P-layer can judge *)
ObsOfRat(q, none) ==
    IF none THEN [none |-> TRUE, neg |-> FALSE, hi |-> 0, lo |-> 0]
    ELSE LET f == FxToObs(ZDivT(ZMul(q[1], AbTen12), q[2])) IN [none |-> FALSE, neg |-> f.neg, hi |-> f.hi, lo |-> f.lo]
ALayerRec(r) ==
    CASE r.op = "binsize" -> [r EXCEPT !.out = BsALayerOut(r)]
      [] r.op = "midsize" -> IF Len(r.sizes) = 0 THEN [r EXCEPT !.err = "AssertionError"] ELSE [r EXCEPT !.out = MsCoded(r.sizes)]
      [] r.op = "autobin" ->
            LET a == AutobinCoded(r, TRUE, TRUE) IN
            IF a.err THEN [r EXCEPT !.err = "error"]
            ELSE [r EXCEPT !.out = [td |-> ObsOfRat(a.td, FALSE),
                                    ts |-> CHOOSE s \in SizesFor(r, a.td, FALSE, r.tmin, r.tmax) : TRUE,
                                    ad |-> ObsOfRat(a.ad, a.anone),
                                    as |-> CHOOSE s \in SizesFor(r, a.ad, a.anone, r.amin, r.amax) : TRUE]]
DesignOK == ph = "ret" => (Premise(inp) => LET rec == ALayerRec(inp) IN \A c \in Clauses(inp.op) : Holds(c, rec))
=============================================================================
