--------------------------- MODULE MC_Ranges ---------------------------
(* Design check + enumerator for C07: every (table, queries) pair of the small scope, one step per   *)
(* operation variant computing the A-layer result; invariants are the P-layer clauses (DesignOK) and *)
(* the statement about the path switch (DesignSwitch).  The dump of this run is replayed into the    *)
(* real skgenome code (direction 1).                                                                 *)
EXTENDS Ranges
CONSTANTS MaxCoord,   \* coordinates 0..MaxCoord
          MaxA, MaxB, \* rows of the table / of the query table
          NChrom,     \* chromosomes 1..NChrom
          Genes,      \* values of the string column
          IdxKind,    \* "default" (labels 0,1,2..), "gapped" (0,2,5: a filtered table), "shifted" (3,5,6)
          VSet,       \* which operation variants: "full", "core", "pairs", "pairs2", "labels", "min", "ranges", "range1"
          Shards, Shard  \* only the tables t with ShardKey(t) % Shards = Shard (Shards = 1: all of them)

Rows4 == {<<c, s, e, g>> : c \in 1..NChrom, s \in 0..MaxCoord, e \in 0..MaxCoord, g \in Genes}
PosRows4 == {r \in Rows4 : S(r) < E(r)}
Rows3 == {<<c, s, e>> : c \in 1..NChrom, s \in 0..MaxCoord, e \in 0..MaxCoord}
PosRows3 == {r \in Rows3 : S(r) < E(r)}
(* sorted multisets of up to n rows *)
RECURSIVE Tabs(_, _)
Tabs(rows, n) == IF n = 0 THEN {<<>>}
                 ELSE LET prev == Tabs(rows, n-1) IN
                      prev \cup {Append(t, r) : t \in {p \in prev : Len(p) = n-1}, r \in rows}
Tables(rows, n) == {t \in Tabs(rows, n) : Sorted(t)}

(* the other columns of the table, by position: val = VSeq[k]/4, n = NSeq[k]; index labels by IdxKind *)
VSeq == <<3, 1, 6, 2>>
NSeq == <<7, 2, 5, 4>>
Ext(t) == [k \in Idx(t) |-> t[k] \o <<VSeq[k], NSeq[k]>>]
Labels(t) == [k \in Idx(t) |-> CASE IdxKind = "default" -> k - 1
                                 [] IdxKind = "gapped"  -> <<0, 2, 5, 6>>[k]
                                 [] IdxKind = "shifted" -> <<3, 5, 6, 8>>[k]]
DfltOf(col)  == CASE col = "gene" -> StrV("-") [] col = "val" -> <<"nan", 0, "">> [] OTHER -> NumV(-8)
ConstOf(col) == CASE col = "gene" -> StrV("K") [] col = "val" -> NumV(20) [] OTHER -> NumV(72)

(* an operation variant: <<base, mode, keep_empty, column, summary_func, chrom (0 = None, NChrom+1 = absent), hs, he>> *)
BOOL == {TRUE, FALSE}
TQ(base, modes, keeps, cols, sfuns) == {<<base, m, k, c, f, 0, TRUE, TRUE>> : m \in modes, k \in keeps, c \in cols, f \in sfuns}
RQ(base, chroms) == {<<base, m, TRUE, "gene", "none", ch, hs, he>> : m \in Modes, ch \in chroms, hs \in BOOL, he \in BOOL}
VFull == TQ("by_ranges", Modes, BOOL, {"gene"}, {"none"})
         \cup TQ("intersection", Modes, {TRUE}, {"gene"}, {"none"})
         \cup TQ("iter_ranges_of", Modes, {TRUE}, {"gene"}, {"none"})
         \cup TQ("iter_ranges_of", {"outer"}, {FALSE}, {"gene"}, {"none"})
         \cup TQ("iter_ranges_of", {"trim"}, {TRUE}, {"end"}, {"none"})
         \cup TQ("into_ranges", {"outer"}, {TRUE}, {"gene"}, {"none", "last"})
         \cup TQ("into_ranges", {"outer"}, {TRUE}, {"val", "n", "missing"}, {"none"})
VCore == TQ("by_ranges", Modes, BOOL, {"gene"}, {"none"})
         \cup TQ("intersection", Modes, {TRUE}, {"gene"}, {"none"})
         \cup TQ("iter_ranges_of", {"outer"}, BOOL, {"gene"}, {"none"})
         \cup TQ("into_ranges", {"outer"}, {TRUE}, {"gene", "val"}, {"none"})
VPairs2 == TQ("by_ranges", Modes, {TRUE}, {"gene"}, {"none"})
           \cup TQ("into_ranges", {"outer"}, {TRUE}, {"gene"}, {"none"})
VLabels == TQ("intersection", {"outer", "inner"}, {TRUE}, {"gene"}, {"none"})
           \cup TQ("iter_ranges_of", {"outer"}, {TRUE}, {"gene"}, {"none"})
           \cup TQ("into_ranges", {"outer"}, {TRUE}, {"gene", "val", "n"}, {"none"})
           \cup TQ("into_ranges", {"outer"}, {TRUE}, {"gene"}, {"last", "const"})
           \cup TQ("into_ranges", {"outer"}, {TRUE}, {"val"}, {"sum", "count"})
VMin == TQ("by_ranges", Modes, {TRUE}, {"gene"}, {"none"})
Variants == CASE VSet = "full"   -> VFull \cup RQ("in_range", 0..NChrom+1) \cup RQ("in_ranges", 1..NChrom)
              [] VSet = "core"   -> VCore \cup RQ("in_range", 0..NChrom+1)
              [] VSet = "pairs"  -> VFull \cup RQ("in_range", 0..NChrom+1)
              [] VSet = "pairs2" -> VPairs2 \cup RQ("in_range", {0, NChrom, NChrom+1})
              [] VSet = "labels" -> VLabels
              [] VSet = "min"    -> VMin
              [] VSet = "ranges" -> RQ("in_range", 0..NChrom+1) \cup RQ("in_ranges", 0..NChrom)
              [] VSet = "range1" -> RQ("in_range", 0..NChrom+1)

(* query rows for in_range / in_ranges; a bound given as None has a canonical dummy coordinate *)
QRows(hs, he) == IF hs /\ he THEN {r \in PosRows3 : C(r) = 1}
                 ELSE IF hs THEN {<<1, s, s + 1>> : s \in 0..MaxCoord}
                 ELSE IF he THEN {<<1, 0, e>> : e \in 1..MaxCoord}
                 ELSE {<<1, 0, 1>>}
BDomain(v) == CASE v[1] = "in_range"  -> {<<r>> : r \in QRows(v[7], v[8])}
                [] v[1] = "in_ranges" -> IF ~v[7] /\ ~v[8] THEN {<<>>}
                                         ELSE {t \in Tables(QRows(v[7], v[8]), MaxB) : v[7] # v[8] => t # <<>>}
                [] OTHER              -> Tables(PosRows3, MaxB)
ShardKey(t) == SumSeq([k \in Idx(t) |-> S(t[k]) + 2 * E(t[k])])
ATables == {t \in Tables(PosRows4, MaxA) : Shards = 1 \/ ShardKey(t) % Shards = Shard}
ADomain(v) == IF v[1] \in {"in_range", "in_ranges"} /\ v[6] = 0
              THEN {t \in ATables : Cardinality(Chroms(t)) <= 1}
              ELSE ATables

VARIABLES a, b, var, ph, res
vars == <<a, b, var, ph, res>>
Rec == [op |-> OpName(var[1], var[2]), base |-> var[1], mode |-> var[2], keep |-> var[3], col |-> var[4], sfun |-> var[5],
        chrom |-> var[6], hs |-> var[7], he |-> var[8], a |-> Ext(a), aidx |-> Labels(a), b |-> b,
        dflt |-> DfltOf(var[4]), sconst |-> ConstOf(var[4]),
        err |-> res[1], errt |-> res[1], kind |-> res[2], nrows |-> res[3], out |-> res[4]]

Init == /\ var \in Variants
        /\ a \in ADomain(var)
        /\ b \in BDomain(var)
        /\ ph = "call" /\ res = <<"", "", 0, <<>>>>
Call == /\ ph = "call" /\ ph' = "ret"
        /\ res' = RgALayer(Rec)
        /\ UNCHANGED <<a, b, var>>
Next == Call
Spec == Init /\ [][Next]_vars

(* the algorithm as modelled (the code after the five repairs) satisfies every clause of the property *)
DesignOK == ph = "ret" => \A c \in RgClauses(Rec.op) : RgHolds(c, Rec)
(* the binary-search path is only taken where it selects what the mask would -- with both bounds given and  *)
(* with a bound given as None                                                                              *)
DesignSwitch ==
    ph = "ret" => IF var[1] \in {"in_range", "in_ranges"}
                  THEN \A inner \in BOOL : SimpleEqMask(ChromTable(Ext(a), var[6]), b, var[7], var[8], inner)
                  ELSE \A c \in Chroms(a) : \A inner \in BOOL :
                           SimpleEqMask(OnChrom(Ext(a), c), OnChrom(b, c), TRUE, TRUE, inner)

(* ---- the code before the repairs, kept to show each defect at design level (each of these is VIOLATED) ---- *)
OldRec == LET o == OldALayer(Rec) IN
          [Rec EXCEPT !.err = o[1], !.errt = o[1], !.kind = o[2], !.nrows = o[3], !.out = o[4]]
OldOK(t) == (ph = "ret" /\ OldDefect(t, Rec)) => \A c \in RgClauses(Rec.op) : RgHolds(c, OldRec)
DesignOldNoneBoundNested   == OldOK("NoneBoundNested")
DesignOldFirstOfLabel      == OldOK("FirstOfLabel")
DesignOldIterRangesOfTrim  == OldOK("IterRangesOfTrim")
DesignOldIntoEmptySource   == OldOK("IntoEmptySource")
DesignOldInRangesNoQueries == OldOK("InRangesNoQueries")
(* the old switch took the binary-search path where it does not select what the mask would *)
DesignOldSwitch == (ph = "ret" /\ var[1] \in {"in_range", "in_ranges"}) =>
                       \A inner \in BOOL : OldSimpleEqMask(ChromTable(Ext(a), var[6]), b, var[7], var[8], inner)
(* outside the five characterised input classes the old code already satisfied the property *)
DesignOldElsewhere == (ph = "ret" /\ \A t \in OldDefects : ~OldDefect(t, Rec)) =>
                          \A c \in RgClauses(Rec.op) : RgHolds(c, OldRec)
=============================================================================
