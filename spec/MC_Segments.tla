--------------------------- MODULE MC_Segments ---------------------------
(* Design check + enumerator for C03.  Every bin table of the small scope x every set of filtered bins     *)
(* (zero weight, weight below min_weight, null coverage, log2 at / just below the low-coverage cut) x every *)
(* breakpoint set the uninterpreted kernel may return x with / without a centromere-sized gap; one step     *)
(* computes the A-layer result (ByArm + filters + assembly + TransferFields); the invariant is the P-layer. *)
(* by_arm's constants (min_gap_size 1e5, min_arm_bins 50) are scaled down to MinGap / MinArmBins.           *)
(* The dump of this run is replayed into the real code with the numeric kernel replaced by one that returns *)
(* exactly `kern` (direction 1).  SpecArm enumerates by_arm alone.                                          *)
EXTENDS Segments
CONSTANTS NChromMC, MaxBinsMC,   \* chromosomes 1..NChromMC, each with 1..MaxBinsMC bins
          MethodsMC,    \* methods enumerated
          MinGap, MinArmBins,
          Kinds,        \* bin kinds: "ok", "w0" (weight 0), "wlow" (weight 1/4), "null" (log2 -20, depth 0),
                        \*            "l15" (log2 = -15 exactly: kept), "l15m" (one grid step below: low coverage)
          SkipLows, MinWs,
          GapSizes,     \* sizes of the one large gap (MinGap - 1: not a centromere, MinGap: one)
          WithGap,      \* enumerate the position of a large gap
          ArmMaxBins, ArmGaps, ArmMabs    \* SpecArm: bins, gap sizes between neighbours, min_arm_bins values

MaxBinsPer == [c \in 1..NChromMC |-> MaxBinsMC]
(* gene names, cycled through by bin position: duplicates, not-meaningful names, Antitarget *)
GeneNames == <<"A", "A", "-", "B", "Antitarget", "A", "CGH">>

(* ---- concrete bins ---- *)
Md(a, b) == a - b * (a \div b)      \* a mod b for a >= 0 (this SANY's linter trips over the percent sign here)
Spacing(k, g, z) == IF k = g THEN z ELSE Md(k, 2)               \* distance between bin k-1 and bin k
RECURSIVE StartOf(_, _, _, _)
StartOf(k, g, z, base) == IF k = 1 THEN base ELSE StartOf(k - 1, g, z, base) + 2 + Spacing(k, g, z)
MkBin(c, k, kind, start) ==
    LET m == k + 3 * (c - 1)
        l0 == 256 * (Md(m * 3, 5) - 2)
        d0 == DU * (1 + Md(m, 3))
    IN <<c, start, start + 2, GeneNames[Md(m - 1, Len(GeneNames)) + 1],
         (CASE kind = "w0" -> 0 [] kind = "wlow" -> WU \div 4 [] OTHER -> WU),
         (CASE kind = "null" -> (-20) * LU [] kind = "l15" -> LowCut [] kind = "l15m" -> LowCut - 1 [] OTHER -> l0),
         (CASE kind = "null" -> 0 [] OTHER -> d0)>>
(* every chromosome starts at the same coordinate: bins of different chromosomes overlap in coordinates, so a *)
(* bin -> segment match that forgets the chromosome shows in weight / depth / gene                           *)
MkChrom(c, n, g, z, kinds) == [k \in 1..n |-> MkBin(c, k, kinds[k], StartOf(k, g, z, 10))]
GapPos(n) == IF WithGap THEN {0} \cup 2..n ELSE {0}
ChromTables(c) == UNION {UNION {{MkChrom(c, n, g, z, kinds) : z \in GapSizes, kinds \in [1..n -> Kinds]}
                                : g \in GapPos(n)} : n \in 1..MaxBinsPer[c]}
RECURSIVE TabsFrom(_)
TabsFrom(c) == IF c > Len(MaxBinsPer) THEN {<<>>} ELSE {ch \o rest : ch \in ChromTables(c), rest \in TabsFrom(c + 1)}
TablesMC == TabsFrom(1)

ArmTable(gaps) == [k \in 1..(Len(gaps) + 1) |->
                     LET st == 5 + 2 * (k - 1) + ISum(SubSeq(gaps, 1, k - 1)) IN <<1, st, st + 2, "g", WU, 0, DU>>]
ArmTables == UNION {{ArmTable(gaps) : gaps \in [1..(n - 1) -> ArmGaps]} : n \in 1..ArmMaxBins}

VARIABLES op, bins, skiplow, minw, mabv, kern, ph, out
vars == <<op, bins, skiplow, minw, mabv, kern, ph, out>>

Proto == [op |-> op, bins |-> bins, skiplow |-> skiplow, skipout |-> 0, minw |-> minw, procs |-> 1,
          gap |-> MinGap, mab |-> mabv, sd9 |-> 0, forced |-> TRUE, kern |-> SetToSortSeq(kern, <), err |-> ""]
SurvMC == LET keep == Keep0(Proto) IN [n \in Idx(bins) |-> n \in keep]
Rec == [op |-> op, bins |-> bins, skiplow |-> skiplow, skipout |-> 0, minw |-> minw, procs |-> 1,
        gap |-> MinGap, mab |-> mabv, sd9 |-> 0, forced |-> TRUE, kern |-> SetToSortSeq(kern, <), err |-> "",
        surv |-> IF op = "byarm" THEN <<>> ELSE SurvMC,
        out |-> IF op = "byarm" THEN <<>> ELSE out,
        arms |-> IF op = "byarm" THEN out ELSE <<>>]

(* every breakpoint set: cuts between consecutive survivors.  none has no kernel choice; for haar a cut at  *)
(* the end of a unit changes nothing (units are segmented separately), so only cuts inside units count.     *)
KernChoices(o, b, sl, mw) ==
    LET pr == [op |-> o, bins |-> b, skiplow |-> sl, skipout |-> 0, minw |-> mw, gap |-> MinGap, mab |-> MinArmBins]
        keep == Keep0(pr)
        prs == [pr EXCEPT !.op = o] @@ [surv |-> [n \in Idx(b) |-> n \in keep]]
        K == Cardinality(keep)
        us == Units(prs)
    IN IF o = "none" THEN {{}}
       ELSE IF o = "haar" THEN SUBSET {p \in 1..(K - 1) : \A j \in Idx(us) : p # us[j].b}
       ELSE SUBSET (1..(K - 1))

Init == /\ op \in MethodsMC
        /\ bins \in TablesMC
        /\ skiplow \in SkipLows
        /\ minw \in MinWs
        /\ mabv = MinArmBins
        /\ kern \in KernChoices(op, bins, skiplow, minw)
        /\ ph = "call" /\ out = <<>>
InitArm == /\ op = "byarm"
           /\ bins \in ArmTables
           /\ skiplow = FALSE /\ minw = 0 /\ kern = {}
           /\ mabv \in ArmMabs
           /\ ph = "call" /\ out = <<>>
Call == /\ ph = "call" /\ ph' = "ret"
        /\ out' = IF op = "byarm"
                  THEN LET arms == TableArms(bins, MinGap, mabv) IN [j \in Idx(arms) |-> IntSeq(arms[j][1], arms[j][2])]
                  ELSE ALayer(Rec, kern)
        /\ UNCHANGED <<op, bins, skiplow, minw, mabv, kern>>
Next == Call
Spec == Init /\ [][Next]_vars
SpecArm == InitArm /\ [][Next]_vars

(* design-level statement: the orchestration as modelled (with the repaired endpoint stretch) satisfies *)
(* every clause of the property, whatever the kernel returns                                            *)
DesignOK == ph = "ret" => \A c \in Clauses(op) : Holds(c, Rec)
(* the defect: with the no-op stretch of pandas copy-on-write the arm-endpoint clause fails as soon as   *)
(* an edge bin of an arm is filtered (expected to be VIOLATED; run on its own as a demonstration)         *)
DesignNoStretch == (ph = "ret" /\ op \in PerArm) => Holds("arm_endpoints", [Rec EXCEPT !.out = ALayerCoW(Rec, kern)])
(* ... and exactly then: whenever no arm has a filtered edge bin the two stretches agree *)
DesignNoStretchOnlyAtEdges ==
    (ph = "ret" /\ op \in PerArm /\ ~TriggerHolds("EdgeBinFiltered", Rec)) => ALayerCoW(Rec, kern) = out
=============================================================================
