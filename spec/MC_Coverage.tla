--------------------------- MODULE MC_Coverage ---------------------------
(* Enumerator for C09: every single read (position x CIGAR shape x flag x MAPQ) of the small scope against the  *)
(* BED holding *every* bin [s, e) with 0 <= s <= e <= MaxEnd of a contig of length ContigLen (zero-width and    *)
(* off-contig-end bins included), for both algorithms and the cut-offs; optionally a second read.  The A-layer  *)
(* value carried in the state is the expected base count per bin; the dump is replayed into the real code.      *)
EXTENDS Coverage
CONSTANTS ContigLen, MaxEnd, Positions, MapQs, MinQs, TwoReads
(* CIGAR shapes: 3M; 1S2M; 2M2S; 1M1D1M; 1=1X1=; 1M2I2M   (cfg files cannot hold tuples) *)
Cigars == {<<<<0, 3>>>>, <<<<4, 1>>, <<0, 2>>>>, <<<<0, 2>>, <<4, 2>>>>, <<<<0, 1>>, <<2, 1>>, <<0, 1>>>>,
           <<<<7, 1>>, <<8, 1>>, <<7, 1>>>>, <<<<0, 1>>, <<1, 2>>, <<0, 2>>>>}

(* the four excluding flags, each alone, and every OTHER flag bit alone (paired, proper pair, mate unmapped,   *)
(* reverse, mate reverse, first, second, supplementary): "every flag combination" -- those must still count    *)
Flags == {"none", "dup", "sec", "unmap", "qcfail", "x1", "x2", "x8", "x16", "x32", "x64", "x128", "x2048"}
XBits(f) == CASE f = "x1" -> 1 [] f = "x2" -> 2 [] f = "x8" -> 8 [] f = "x16" -> 16 [] f = "x32" -> 32
              [] f = "x64" -> 64 [] f = "x128" -> 128 [] f = "x2048" -> 2048 [] OTHER -> 0
Read(p, cg, f, q) == [c |-> 1, pos |-> p, cig |-> cg, dup |-> f = "dup", sec |-> f = "sec", unmap |-> f = "unmap",
                      qcfail |-> f = "qcfail", mapq |-> q, xflag |-> XBits(f)]
RefLen(cg) == ISum([k \in 1..Len(cg) |-> IF cg[k][1] \in {0, 2, 3, 7, 8} THEN cg[k][2] ELSE 0])
Reads1 == {Read(p, cg, f, q) : p \in Positions, cg \in Cigars, f \in Flags, q \in MapQs}
Fits(rd) == rd.pos + RefLen(rd.cig) <= ContigLen
(* pairs of reads: counted-quality reads that are plain or flagged duplicate (overlaps, sums, one excluded) *)
Reads2 == {Read(p, cg, f, 30) : p \in Positions, cg \in Cigars, f \in {"none", "dup"}} \cap {x \in Reads1 : Fits(x)}
AllBins == {<<1, s, e, "b">> : s \in 0..MaxEnd, e \in 0..MaxEnd}
Bins == SetToSortSeq({b \in AllBins : b[2] <= b[3]}, LAMBDA x, y : x[2] < y[2] \/ (x[2] = y[2] /\ x[3] < y[3]))

VARIABLES reads, minq, bycount, ph, expect
vars == <<reads, minq, bycount, ph, expect>>
Init == /\ reads \in {<<r>> : r \in {x \in Reads1 : Fits(x)}}
                 \cup (IF TwoReads THEN {<<r1, r2>> : r1 \in Reads2, r2 \in Reads2} ELSE {})
        /\ minq \in MinQs /\ bycount \in BOOLEAN
        /\ ph = "call" /\ expect = <<>>
InScope == bycount \/ \A k \in 1..Len(reads) : ~HasIndelOrSkip(reads[k])
Next == /\ ph = "call" /\ InScope /\ ph' = "ret"
        /\ (\A k \in 1..Len(reads)-1 : reads[k].pos <= reads[k+1].pos)      \* coordinate-sorted BAM
        /\ expect' = [k \in 1..Len(Bins) |-> IF Bins[k][3] > Bins[k][2]
                                               THEN BasesInBin(reads, 1, Bins[k][2], Bins[k][3], minq) ELSE 0]
        /\ UNCHANGED <<reads, minq, bycount>>
Spec == Init /\ [][Next]_vars
(* design sanity: a read contributes at most its aligned length, and nothing when it is not counted *)
DesignOK == ph = "ret" => \A k \in 1..Len(Bins) :
               /\ expect[k] <= ISum([j \in 1..Len(reads) |-> RefLen(reads[j].cig)])
               /\ ((\A j \in 1..Len(reads) : ~Counted(reads[j], minq)) => expect[k] = 0)
=============================================================================
