--------------------------- MODULE AuxFormats ---------------------------
(* X09 (extension) -- the auxiliary formats and importers of skgenome.tabio / cnvlib that spec/Formats.tla (C08)  *)
(* does not cover:                                                                                                *)
(*   "refflat"  genepred.read_refflat (transcript / cds / exons), through tabio.read and read_auto (sniffing)     *)
(*   "notimpl"  the readers tabio lists but does not implement (genepred, genepredext, refgene, bed6)             *)
(*   "gff"      gff.read_gff with the options tag= and keep_type=, GFF3 and GTF attribute styles                  *)
(*   "dict"     seqdict.read_dict (samtools dict / SAM header)                                                    *)
(*   "tracks"   bedio.group_bed_tracks / parse_bed_track and read_bed on multi-track files                        *)
(*   "vcfinfo"  vcfsimple: parse_end_from_info, parse_qual, set_ends through read_vcf_simple / read_vcf_sites     *)
(*   "tabna"    tab.read_tab: rows without a log2 value are dropped                                               *)
(*   "impseg"   cnvkit.py import-seg: chromosome map, prefix, --from-log10, one .cns per sample                   *)
(* Texts are sequences of character codes; tables, cells, Finish / Canon / ReadBed / ReadTab / ASniff come from   *)
(* Formats.  Because Formats already owns the names Clauses / Holds / Premise / Drift / KnownTriggers /           *)
(* TriggerHolds, this module's are XClauses / XHolds / XPremise / XDrift / XKnownTriggers / XTriggerHolds         *)
(* (Trace_AuxFormats uses those).  P-layer clauses quote the sentence of the package they state; everything the   *)
(* package is silent about is A-layer only (X...A operators; disagreement = MODEL-DRIFT).                         *)
EXTENDS Formats, Num

(* ---------------------------------------------------------------- literal texts (generated) *)
x_accession == <<97, 99, 99, 101, 115, 115, 105, 111, 110>>   \* 'accession'
x_HD == <<64, 72, 68>>   \* '@HD'
x_SQ == <<64, 83, 81>>   \* '@SQ'
x_VN == <<86, 78, 58, 49, 46, 48>>   \* 'VN:1.0'
x_SO == <<83, 79, 58, 117, 110, 115, 111, 114, 116, 101, 100>>   \* 'SO:unsorted'
x_SNp == <<83, 78, 58>>   \* 'SN:'
x_LNp == <<76, 78, 58>>   \* 'LN:'
x_XXp == <<88, 88, 58>>   \* 'XX:'
x_M5 == <<77, 53, 58, 48>>   \* 'M5:0'
x_UR == <<85, 82, 58, 102, 105, 108, 101, 58, 47, 120>>   \* 'UR:file:/x'
x_one == <<49>>   \* '1'
x_x == <<120>>   \* 'x'
x_trackname == <<116, 114, 97, 99, 107, 32, 110, 97, 109, 101, 61>>   \* 'track name='
x_trackdesc == <<116, 114, 97, 99, 107, 32, 100, 101, 115, 99, 114, 105, 112, 116, 105, 111, 110, 61, 34>>   \* 'track description="'
x_desc == <<32, 100, 101, 115, 99, 114, 105, 112, 116, 105, 111, 110, 61, 34>>   \* ' description="'
x_nameeq == <<32, 110, 97, 109, 101, 61>>   \* ' name='
x_q == <<34>>   \* '"'
x_DEFAULT == <<68, 69, 70, 65, 85, 76, 84>>   \* 'DEFAULT'
x_browserline == <<98, 114, 111, 119, 115, 101, 114, 32, 112, 111, 115, 105, 116, 105, 111, 110, 32, 99, 104, 114, 49, 58, 49, 45, 49, 48, 48>>   \* 'browser position chr1:1-100'
x_name == <<110, 97, 109, 101>>   \* 'name'
x_END == <<69, 78, 68>>   \* 'END'
x_cns == <<46, 99, 110, 115>>   \* '.cns'
x_23 == <<50, 51>>   \* '23'
x_24 == <<50, 52>>   \* '24'
x_25 == <<50, 53>>   \* '25'
x_X == <<88>>   \* 'X'
x_Y == <<89>>   \* 'Y'
x_M == <<77>>   \* 'M'
x_cmpl == <<99, 109, 112, 108>>   \* 'cmpl'
x_frames == <<48, 44>>   \* '0,'
x_garbage == <<87, 97, 114, 110, 105, 110, 103, 32, 109, 101, 115, 115, 97, 103, 101, 58, 32, 115, 111, 109, 101, 116, 104, 105, 110, 103>>   \* 'Warning message: something'
x_gtfsep == <<34, 59, 32>>   \* '"; '
x_gtfend == <<34, 59>>   \* '";'
x_spq == <<32, 34>>   \* ' "'
x_ID == <<73, 68>>   \* 'ID'
x_chrom == <<99, 104, 114, 111, 109>>   \* 'chrom'
x_locstart == <<108, 111, 99, 46, 115, 116, 97, 114, 116>>   \* 'loc.start'
x_locend == <<108, 111, 99, 46, 101, 110, 100>>   \* 'loc.end'
x_nummark == <<110, 117, 109, 46, 109, 97, 114, 107>>   \* 'num.mark'
x_segmean == <<115, 101, 103, 46, 109, 101, 97, 110>>   \* 'seg.mean'
x_NA == <<78, 65>>   \* 'NA'
x_nan == <<110, 97, 110>>   \* 'nan'

XSet(s) == {s[k] : k \in 1..Len(s)}
XNoErr(r) == r.err = ""
Ints(s) == [k \in 1..Len(s) |-> IntText(s[k])]
CommaList(ns) == Concat([j \in 1..Len(ns) |-> IntText(ns[j]) \o <<ch_comma>>])
XBag(E, O) == BagOK(E, O)                                    \* same rows, same multiplicities (Formats)
XProj(t, cols) == IF HasAll(t, cols) THEN Project(t, cols).rows ELSE <<>>
XOn(t, cols, exp) == IF exp = <<>> THEN NRows(t) = 0 ELSE HasAll(t, cols) /\ XBag(exp, Project(t, cols).rows)

(* ================================================================= refFlat =============================== *)
(* gene model g = [gene, acc, chrom, strand, tx, cds, exons]: tx, cds = <<start, end>>, exons = Seq(<<s, e>>),     *)
(* the numbers exactly as they stand in the file.                                                                 *)
(* read_refflat docstring: table refFlat (geneName, name, chrom, strand, txStart, txEnd, cdsStart, cdsEnd,        *)
(* exonCount, exonStarts, exonEnds)                                                                               *)
RfLine(g) == <<g.gene, g.acc, g.chrom, g.strand, IntText(g.tx[1]), IntText(g.tx[2]), IntText(g.cds[1]), IntText(g.cds[2]),
               IntText(Len(g.exons)), CommaList([j \in 1..Len(g.exons) |-> g.exons[j][1]]),
               CommaList([j \in 1..Len(g.exons) |-> g.exons[j][2]])>>
RfLayout(genes) == [k \in 1..Len(genes) |-> RfLine(genes[k])]
RfCols == <<t_chromosome, t_start, t_end, x_accession, t_gene, t_strand>>
(* "cds: Emit each gene's CDS region (coding and introns, but not UTRs) instead of the full transcript region     *)
(*  (default).  exons: Emit individual exonic regions for each gene instead of the full transcribed genomic       *)
(*  region (default)."                                                                                            *)
RfRegions(g, mode) == CASE mode = "tx" -> <<g.tx>> [] mode = "cds" -> <<g.cds>> [] OTHER -> g.exons
(* sh = how far the start is moved down: 0 = the file's number is already 0-based (UCSC), 1 = taken as 1-based *)
RfExpRows(genes, mode, sh) ==
    Concat([k \in 1..Len(genes) |->
              LET g == genes[k] rg == RfRegions(g, mode)
              IN [j \in 1..Len(rg) |-> <<SCell(g.chrom), ICell(rg[j][1] - sh), ICell(rg[j][2]), SCell(g.acc), SCell(g.gene),
                                         SCell(g.strand)>>]])
RfRegionsOK(r, sh) == IF r.genes = <<>> THEN NRows(r.out) = 0
                      ELSE HasAll(r.out, RfCols) /\ XSet(Project(r.out, RfCols).rows) = XSet(RfExpRows(r.genes, r.mode, sh))
(* A-layer: pd.read_csv(names, usecols, dtype str for the shared columns), [exons: _split_commas / _split_exons /  *)
(* astype int], start - 1, sort_values([chromosome, start, end]) on the chromosome *string*; then tabio.read:      *)
(* sort_columns(), sort().  No row is dropped: identical lines stay.                                              *)
RfSplitCommas(f) == LET s == IF f # <<>> /\ f[Len(f)] = ch_comma THEN TakeFirst(f, Len(f) - TrailCount(f, LAMBDA c : c = ch_comma)) ELSE f
                    IN SplitOn(s, ch_comma)
RfLexLess(a, b) == \/ SeqLess(a[3][4], b[3][4])
                   \/ a[3][4] = b[3][4] /\ (a[5][3] < b[5][3] \/ (a[5][3] = b[5][3] /\ a[6][3] < b[6][3]))
RfRowsA(f, mode) ==
    LET shared == <<SCell(f[1]), SCell(f[2]), SCell(f[3]), SCell(f[4])>> IN
    CASE mode = "tx"  -> << shared \o <<ICell(IntVal(f[5]) - 1), ICell(IntVal(f[6]))>> >>
      [] mode = "cds" -> << shared \o <<ICell(IntVal(f[7]) - 1), ICell(IntVal(f[8]))>> >>
      [] OTHER -> LET ss == RfSplitCommas(f[10]) ee == RfSplitCommas(f[11])
                      n == IF Len(ss) < Len(ee) THEN Len(ss) ELSE Len(ee)           \* zip()
                  IN [j \in 1..n |-> shared \o <<ICell(IntVal(ss[j]) - 1), ICell(IntVal(ee[j]))>>]
RfReadA(L, mode) ==
    LET BB == NonBlank(L)
        rows == Concat([k \in 1..Len(BB) |-> RfRowsA(BB[k], mode)])
    IN Finish(Tbl(<<t_gene, x_accession, t_chromosome, t_strand, t_start, t_end>>, StableSortBy(rows, RfLexLess)), CSE)

(* ================================================================= readers listed but not implemented ===== *)
(* tabio.read docstring: "Supported formats: see `READERS`" -- READERS lists genepred, genepredext, refgene and   *)
(* bed6; their docstrings describe the tables (read_bed6: "6-column BED format: chromosome, start, end, name,     *)
(* score, strand.").  The fixtures are the gene models laid out per those table definitions.                       *)
GpLine(g) == <<g.acc, g.chrom, g.strand>> \o SubSeq(RfLine(g), 5, 11)
GpExtLine(g) == GpLine(g) \o <<t_zero, g.gene, x_cmpl, x_cmpl, x_frames>>
NiLayout(fmt, genes) ==
    [k \in 1..Len(genes) |->
        CASE fmt = "genepred" -> GpLine(genes[k]) [] fmt = "genepredext" -> GpExtLine(genes[k])
          [] fmt = "refgene" -> <<x_one>> \o GpExtLine(genes[k])
          [] OTHER -> <<genes[k].chrom, IntText(genes[k].tx[1]), IntText(genes[k].tx[2]), genes[k].gene, t_zero, genes[k].strand>>]
NiErrA(fmt) == IF fmt = "bed6" THEN "ValueError" ELSE "NotImplementedError"      \* read_bed6 *returns* NotImplemented

(* ================================================================= sequence dictionary ==================== *)
(* seqdict module docstring: "Read a sequence dictionary, the output of 'samtools dict'.  Columns: 0. @HD or @SQ   *)
(* 1. SN:sequence_name (@SQ) or VN:version_number (@HD) 2. LN:sequence_length (@SQ) or SO:sort_order (@HD)         *)
(* 3. UR:uri_of_sequence_file (@SQ only) 4. M5:md4sum_of_sequence (@SQ only)".  entry = <<kind, name, length>>.     *)
DictLine(e) ==
    LET sn == x_SNp \o e[2] ln == x_LNp \o IntText(e[3]) IN
    CASE e[1] = "HD"    -> <<x_HD, x_VN, x_SO>>
      [] e[1] = "SQ"    -> <<x_SQ, sn, ln, x_M5, x_UR>>
      [] e[1] = "badSN" -> <<x_SQ, x_XXp \o e[2], ln, x_M5, x_UR>>
      [] e[1] = "badLN" -> <<x_SQ, sn, x_XXp \o IntText(e[3]), x_M5, x_UR>>
      [] e[1] = "SQ3"   -> <<x_SQ, sn, ln>>
      [] OTHER          -> <<e[2], x_one, IntText(e[3]), t_plus, x_x>>          \* an interval-list body row
DictLayout(es) == [k \in 1..Len(es) |-> DictLine(es[k])]
DictPlain(es) == \A k \in 1..Len(es) : es[k][1] \in {"HD", "SQ"}
(* doc/fileformats.rst: "the entire region [of a 1000-basepair sequence] is indicated by the range 0-1000" *)
DictExpRows(es) == LET sq == SelectSeq(es, LAMBDA e : e[1] = "SQ") IN [k \in 1..Len(sq) |-> <<SCell(sq[k][2]), ICell(0), ICell(sq[k][3])>>]
(* error message of _parse_lines: raise ValueError(f"Bad line: {line!r}") when SN: / LN: is missing *)
DictBadFirst(es) == \E k \in 1..Len(es) : /\ es[k][1] \in {"badSN", "badLN"}
                                          /\ \A j \in 1..(k - 1) : es[j][1] \in {"HD", "SQ"}
(* A-layer: the generator stops at the first line that starts with neither @SQ nor @HD; an @SQ line must split   *)
(* into exactly five fields (tuple unpacking), carry SN: / LN: and an int() length                               *)
DictReadA(L) ==
    LET stop == {k \in 1..Len(L) : ~StartsWithSub(L[k][1], x_SQ) /\ ~StartsWithSub(L[k][1], x_HD)}
        BB   == IF stop = {} THEN L ELSE TakeFirst(L, MinOf(stop) - 1)
        sq   == SelectSeq(BB, LAMBDA f : StartsWithSub(f[1], x_SQ))
        bad(f) == \/ Len(f) # 5 \/ ~StartsWithSub(f[2], x_SNp) \/ ~StartsWithSub(f[3], x_LNp)
                  \/ ~IsIntText(DropFirst(f[3], 3))
    IN IF \E k \in 1..Len(sq) : bad(sq[k]) THEN [err |-> "ValueError", out |-> EmptyTbl]
       ELSE [err |-> "", out |-> Finish(Tbl(CSE, [k \in 1..Len(sq) |-> <<SCell(DropFirst(sq[k][2], 3)), ICell(0),
                                                                       ICell(IntVal(DropFirst(sq[k][3], 3)))>>]), CSE)]

(* ================================================================= GFF with options ======================= *)
(* feature f = [chrom, source, type, s, e, score, strand, phase, attrs]: [s, e) 0-based half-open, score a cell   *)
(* (NACell for "."), attrs = Seq(<<key, value>>); style "gff3": k=v;k=v   "gtf": k "v"; k "v";                     *)
GffAttrText(attrs, style) ==
    IF style = "gff3" THEN Concat([j \in 1..Len(attrs) |-> (IF j > 1 THEN <<ch_semi>> ELSE <<>>) \o attrs[j][1] \o <<ch_eq>> \o attrs[j][2]])
    ELSE Concat([j \in 1..Len(attrs) |-> (IF j > 1 THEN <<ch_space>> ELSE <<>>) \o attrs[j][1] \o x_spq \o attrs[j][2] \o x_gtfend])
(* gff module docstring / doc/fileformats.rst: "4. start: in 1-based integer coordinates  5. end: in 1-based       *)
(* integer coordinates  6. score: float or '.' (for NA)"                                                           *)
GffLineX(f, style) == <<f.chrom, f.source, f.type, IntText(f.s + 1), IntText(f.e),
                        IF f.score[1] = "na" THEN t_dot ELSE RenderCell(f.score), f.strand, f.phase, GffAttrText(f.attrs, style)>>
GffLayoutX(feats, style) == (IF style = "gff3" THEN << <<t_gffver>> >> ELSE <<>>) \o [k \in 1..Len(feats) |-> GffLineX(feats[k], style)]
(* "keep_type : If specified, only keep rows with this value in the 'type' field (column 3)." *)
GffKept(r) == SelectSeq(r.feats, LAMBDA f : r.keep = <<>> \/ f.type = r.keep)
GffIdCols == <<t_source, t_type, t_strand, t_phase, t_attribute>>
GffExp(r, cols) ==
    LET K == GffKept(r)
        cell(f, c) == CASE c = t_chromosome -> SCell(f.chrom) [] c = t_start -> ICell(f.s) [] c = t_end -> ICell(f.e)
                        [] c = t_source -> SCell(f.source) [] c = t_type -> SCell(f.type) [] c = t_strand -> SCell(f.strand)
                        [] c = t_phase -> SCell(f.phase) [] c = t_score -> (IF f.score[1] = "na" THEN NACell ELSE FCell(CDec(f.score)))
                        [] OTHER -> SCell(GffAttrText(f.attrs, r.style))
    IN [k \in 1..Len(K) |-> [j \in 1..Len(cols) |-> cell(K[k], cols[j])]]
(* "tag : GFF attributes tag to use for extracting gene names ... the parser will by default look for either of    *)
(*  those tags [Name, gene_id] and also gene_name and gene"; doc/fileformats.rst: "checks for these tags in column  *)
(*  9 ... take the value of the first match and use it as the gene".  Stated only where every reading agrees:      *)
(*  exactly one attribute *key* is one of the tags -> its value is the gene.                                       *)
GffTagsOf(r) == IF r.tag = <<>> THEN GffTags ELSE <<r.tag>>
GffTagKeys(attrs, tags) == {j \in 1..Len(attrs) : InSeq(attrs[j][1], tags)}
GffGeneOK(r) ==
    NRows(r.out) = 0 \/
    (HasAll(r.out, <<t_gene, t_attribute>>) /\
     \A k \in 1..NRows(r.out) : \A i \in 1..Len(r.feats) :
        LET f == r.feats[i] ks == GffTagKeys(f.attrs, GffTagsOf(r)) IN
        (Col(r.out, k, t_attribute) = SCell(GffAttrText(f.attrs, r.style)) /\ Cardinality(ks) = 1)
            => Col(r.out, k, t_gene) = SCell(f.attrs[CHOOSE j \in ks : TRUE][2]))
(* A-layer: Formats!ReadGff with the tag list and keep_type as parameters.  The pattern tag[= ]"?(\S+?)"?(;|$) is    *)
(* searched in the attribute text: leftmost match, no word boundary before the tag                                *)
GffGeneX(a, tags) ==
    LET n == Len(tags)
        hits == {p \in 1..Len(a) : \E j \in 1..n : GffGeneAt(a, p, tags[j]) # <<>>}
    IN IF hits = {} THEN t_dash
       ELSE LET p == MinOf(hits) j == MinOf({i \in 1..n : GffGeneAt(a, p, tags[i]) # <<>>}) IN GffGeneAt(a, p, tags[j])
GffReadA(L, tags, keep) ==
    LET BB == SelectSeq(NonBlank(L), LAMBDA f : f[1] = <<>> \/ f[1][1] # ch_hash)
        rows == [k \in 1..Len(BB) |->
                   <<SCell(BB[k][1]), IntMinus1(BB[k][4]), ICell(IntVal(BB[k][5])), SCell(BB[k][2]), SCell(BB[k][3]),
                     IF BB[k][6] = t_dot THEN NACell ELSE ForcedFloat(BB[k][6]), SCell(BB[k][7]), SCell(BB[k][8]),
                     SCell(BB[k][9]), SCell(GffGeneX(BB[k][9], tags))>>]
        kept == SelectSeq(StableSortBy(rows, GffLexLess), LAMBDA w : keep = <<>> \/ w[5][4] = keep)
    IN Finish(Tbl(CSE \o <<t_source, t_type, t_score, t_strand, t_phase, t_attribute, t_gene>>, kept), CSE)

(* ================================================================= BED tracks ============================= *)
(* block b = [hasline, style, name, desc, shape, rows]; rows = Seq([chrom, s, e, gene, strand]); shape "3"/"4"/"6"  *)
(* says how many columns a row line carries.  The file is a sequence of raw lines (no tabs split).                 *)
TrackLine(b) ==
    LET d == x_desc \o b.desc \o x_q IN
    CASE b.style = "plain"  -> x_trackname \o b.name \o (IF b.desc # <<>> THEN d ELSE <<>>)
      [] b.style = "quoted" -> x_trackname \o x_q \o b.name \o x_q \o (IF b.desc # <<>> THEN d ELSE <<>>)
      [] b.style = "descfirst" -> x_trackdesc \o b.desc \o x_q \o x_nameeq \o b.name
      [] OTHER -> x_trackdesc \o b.desc \o x_q                                          \* "noname"
TrRowLine(w, shape) ==
    JoinWith(<<w.chrom, IntText(w.s), IntText(w.e)>> \o (IF shape \in {"4", "6"} THEN <<w.gene>> ELSE <<>>)
             \o (IF shape = "6" THEN <<t_zero, w.strand>> ELSE <<>>), ch_tab)
TrLayout(blocks, browser) ==
    (IF browser THEN <<x_browserline>> ELSE <<>>)
    \o Concat([k \in 1..Len(blocks) |-> (IF blocks[k].hasline THEN <<TrackLine(blocks[k])>> ELSE <<>>)
                                        \o [j \in 1..Len(blocks[k].rows) |-> TrRowLine(blocks[k].rows[j], blocks[k].shape)]])
IsTrackLine(ln) == StartsWithSub(ln, t_track)
TrNoName(blocks) == \E k \in 1..Len(blocks) : blocks[k].hasline /\ blocks[k].style = "noname"
(* group_bed_tracks docstring: "Group the parsed rows in a BED file by track.  Yields (track_name,                  *)
(* iterable_of_lines), much like itertools.groupby."                                                               *)
TrFlat(groups) == Concat([g \in 1..Len(groups) |-> [j \in 1..Len(groups[g][2]) |-> <<groups[g][1], groups[g][2][j]>>]])
TrDataIdx(lines) == SortedSeqOfSet({k \in 1..Len(lines) : ~IsTrackLine(lines[k])})
TrPartitionOK(r) == LET F == TrFlat(r.groups) ix == TrDataIdx(r.lines)
                    IN [p \in 1..Len(F) |-> F[p][2]] = [p \in 1..Len(ix) |-> r.lines[ix[p]] \o <<10>>]
(* parse_bed_track docstring: 'Parse the "name" field of a BED track definition line.'  -- a line yielded under a  *)
(* name follows the track line with that name field (lines before any track line: the name is not documented)      *)
TrOwnerNames(blocks, browser) ==       \* per data line: <<TRUE, name>> or <<FALSE, <<>>>>
    (IF browser THEN << <<FALSE, <<>>>> >> ELSE <<>>)
    \o Concat([k \in 1..Len(blocks) |->
                 LET own == {j \in 1..k : blocks[j].hasline}
                 IN [j \in 1..Len(blocks[k].rows) |-> IF own = {} THEN <<FALSE, <<>>>> ELSE <<TRUE, blocks[MaxOf(own)].name>>]])
TrNamesOK(r) == LET F == TrFlat(r.groups) O == TrOwnerNames(r.blocks, r.browser)
                IN Len(F) = Len(O) /\ \A p \in 1..Len(F) : O[p][1] => F[p][1] = O[p][2]
(* read_bed docstring: "Coordinate indexing is from 0.  Sets of regions are separated by 'track' lines.  This      *)
(* function stops reading after encountering a track line other than the first one in the file."  Claimed for     *)
(* files that begin ([browser line,] then) with a track line: the table is the first block.                        *)
TrBedCols(shape) == CSE \o (IF shape \in {"4", "6"} THEN <<t_gene>> ELSE <<>>) \o (IF shape = "6" THEN <<t_strand>> ELSE <<>>)
TrBedExp(b) == [j \in 1..Len(b.rows) |->
                  LET w == b.rows[j] IN <<SCell(w.chrom), ICell(w.s), ICell(w.e)>> \o (IF b.shape \in {"4", "6"} THEN <<SCell(w.gene)>> ELSE <<>>)
                                        \o (IF b.shape = "6" THEN <<SCell(w.strand)>> ELSE <<>>)]
(* A-layer: group_bed_tracks as its loop: state = (track, lines, yielded); a track line yields the current group   *)
(* only when it has lines; the last group is always yielded; before any track line the name is "DEFAULT".         *)
(* parse_bed_track = shlex.split: blanks outside double quotes separate, quotes are removed; first key "name".      *)
ShlexFields(ln) ==
    LET seps == {p \in 1..Len(ln) : ln[p] = ch_space /\ Cardinality({q \in 1..(p - 1) : ln[q] = ch_quote}) % 2 = 0}
        n    == Cardinality(seps)
        cut  == [j \in 0..(n + 1) |-> IF j = 0 THEN 0 ELSE IF j = n + 1 THEN Len(ln) + 1
                                      ELSE CHOOSE p \in seps : Cardinality({q \in seps : q < p}) = j - 1]
        raw  == [j \in 1..(n + 1) |-> SubSeq(ln, cut[j - 1] + 1, cut[j] - 1)]
    IN [j \in 1..Len(SelectSeq(raw, LAMBDA x : x # <<>>)) |-> SelectSeq(SelectSeq(raw, LAMBDA x : x # <<>>)[j], LAMBDA c : c # ch_quote)]
TrackNameA(ln) ==      \* <<ok, name>>
    LET fs == ShlexFields(ln)
        hit == {j \in 2..Len(fs) : StartsWithSub(fs[j], x_name \o <<ch_eq>>)}
    IN IF hit = {} THEN <<FALSE, <<>>>> ELSE <<TRUE, DropFirst(fs[MinOf(hit)], 5)>>
TrStep(st, ln) ==
    IF st.err THEN st
    ELSE IF IsTrackLine(ln)
         THEN LET nm == TrackNameA(ln)
                  y  == IF st.lines # <<>> THEN Append(st.yielded, <<st.track, st.lines>>) ELSE st.yielded
              IN IF nm[1] THEN [track |-> nm[2], lines |-> <<>>, yielded |-> y, err |-> FALSE]
                 ELSE [st EXCEPT !.err = TRUE, !.yielded = y]
         ELSE [st EXCEPT !.lines = Append(@, ln \o <<10>>)]
TrGroupsA(lines) ==
    LET fin == FoldLeft(TrStep, [track |-> x_DEFAULT, lines |-> <<>>, yielded |-> <<>>, err |-> FALSE], lines)
    IN IF fin.err THEN [err |-> "ValueError", groups |-> <<>>] ELSE [err |-> "", groups |-> Append(fin.yielded, <<fin.track, fin.lines>>)]
TrBedA(lines) == Finish(ReadBed([k \in 1..Len(lines) |-> SplitOn(lines[k], ch_tab)]), CSE)

(* ================================================================= simple VCF: INFO/END, QUAL, allele lengths = *)
(* record v = [chrom, pos, ref, alt, qual, info]: pos 1-based, qual = text ("." or a number), info = Seq(<<k, v>>)  *)
(* (v = <<>>: a flag); an empty info is written "."                                                               *)
ViInfoText(info) == IF info = <<>> THEN t_dot
                    ELSE Concat([j \in 1..Len(info) |-> (IF j > 1 THEN <<ch_semi>> ELSE <<>>) \o info[j][1]
                                                        \o (IF info[j][2] # <<>> THEN <<ch_eq>> \o info[j][2] ELSE <<>>)])
ViLine(v) == <<v.chrom, IntText(v.pos), t_dot, v.ref, v.alt, v.qual, t_dot, ViInfoText(v.info)>>
ViLayout(recs) == << <<t_vcf_ff>>, <<t_hCHROM, t_POS, t_ID, t_REF, t_ALT, t_QUAL, t_FILTER, t_INFO>> >>
                  \o [k \in 1..Len(recs) |-> ViLine(recs[k])]
ViEndKeys(v) == {j \in 1..Len(v.info) : v.info[j][1] = x_END /\ v.info[j][2] # <<>>}
ViRowsOf(r, v) == {k \in 1..NRows(r.out) : Col(r.out, k, t_chromosome) = SCell(v.chrom) /\ Col(r.out, k, t_start) = ICell(v.pos - 1)}
ViAll(r, P(_, _)) ==        \* every record has exactly one row (records have distinct positions) and P(record, row) holds
    /\ NRows(r.out) = Len(r.recs)
    /\ r.recs # <<>> => HasAll(r.out, CSE \o <<t_qual>>)
    /\ \A i \in 1..Len(r.recs) : LET ks == ViRowsOf(r, r.recs[i]) IN Cardinality(ks) = 1 /\ P(r.recs[i], CHOOSE k \in ks : TRUE)
(* parse_end_from_info docstring: "Parse END position, if present, from an INFO field." *)
ViEndOK(r) == ViAll(r, LAMBDA v, k : ViEndKeys(v) # {} => Col(r.out, k, t_end) = ICell(IntVal(v.info[MinOf(ViEndKeys(v))][2])))
(* parse_qual docstring: "Parse a QUAL value as a number or NaN." *)
ViQualOK(r) == ViAll(r, LAMBDA v, k : IF v.qual = t_dot THEN Col(r.out, k, t_qual) = NACell
                                      ELSE IsNumCell(Col(r.out, k, t_qual)) /\ NumEq6(CDec(Col(r.out, k, t_qual)), ToDec(ParseDecimal(v.qual))))
(* A-layer: info.find("END=") -- the first place the four characters occur, also inside CIEND= / SVEND=; the text  *)
(* up to the next ";" goes through int(); without a hit: end = start + max(0, len(alt) - len(ref))  (set_ends)       *)
ViEndA(infotext) ==      \* <<ok, end or -1>>
    LET p == FindSub(infotext, x_END \o <<ch_eq>>) IN
    IF p = 0 THEN <<TRUE, -1>>
    ELSE LET rest == DropFirst(infotext, p + 3)
             semi == Positions(rest, ch_semi)
             txt  == IF semi = {} THEN rest ELSE TakeFirst(rest, MinOf(semi) - 1)
         IN IF IsIntText(txt) THEN <<TRUE, IntVal(txt)>> ELSE <<FALSE, 0>>
ViReadA(L) ==
    LET BB == SelectSeq(NonBlank(L), LAMBDA f : f[1] = <<>> \/ f[1][1] # ch_hash)
        bad == \E k \in 1..Len(BB) : ~ViEndA(BB[k][8])[1]
        row(f) == LET start == IntVal(f[2]) - 1 e0 == ViEndA(f[8])[2] grow == Len(f[5]) - Len(f[4])
                  IN <<SCell(f[1]), ICell(start), ICell(IF e0 = -1 THEN start + (IF grow > 0 THEN grow ELSE 0) ELSE e0),
                       IF f[6] = t_dot THEN NACell ELSE ForcedFloat(f[6])>>
    IN IF bad THEN [err |-> "ValueError", out |-> EmptyTbl]
       ELSE [err |-> "", out |-> Finish(Tbl(CSE \o <<t_qual>>, [k \in 1..Len(BB) |-> row(BB[k])]), CSE)]

(* ================================================================= tab: rows without log2 ================= *)
(* tab.read_tab: "Every bin needs a log2 value; the others can be NaN"; warning "Dropped %d rows with missing      *)
(* log2 values".  src = a table whose float columns may hold NACell; the fixture is Formats!Layout("tab").           *)
TnFill(t) == Tbl(t.cols, [k \in 1..NRows(t) |-> [j \in 1..Len(t.cols) |-> IF t.rows[k][j][1] = "na" THEN <<"f", 0, 0, <<1, 5>>>> ELSE t.rows[k][j]]])
TnKept(t) == SelectSeq(t.rows, LAMBDA w : w[ColIdx(t, t_log2)][1] # "na")
TnReadA(L) ==
    LET t == ReadTab(L) IN
    IF NonBlank(L) = <<>> THEN EmptyTbl
    ELSE IF ~HasCol(t, t_log2) THEN Finish(t, CSE)
    ELSE Finish(Tbl(t.cols, TnKept(t)), CSE)

(* ================================================================= import-seg ============================= *)
(* row w = [sid, chrom, s, e, probes, mean]: chrom as the SEG file spells it, [s, e) 0-based half-open, mean a      *)
(* numeric cell; cmap = Seq(<<from, to>>) (the -c option resolved: "human" = 23:X,24:Y,25:M), prefix text,         *)
(* log10 BOOLEAN, lead = number of tab-less lines before the header.  doc/fileformats.rst: "loc.start -- segment's  *)
(* genomic start position, 1-indexed"; parse_seg: "Coordinates are automatically converted from 1-indexed to       *)
(* half-open 0-indexed".                                                                                         *)
HumanMap == << <<x_23, x_X>>, <<x_24, x_Y>>, <<x_25, x_M>> >>
IsLine(w, probes) == <<w.sid, w.chrom, IntText(w.s + 1), IntText(w.e)>> \o (IF probes THEN <<IntText(w.probes)>> ELSE <<>>)
                     \o <<RenderCell(w.mean)>>
IsLayout(r) == [k \in 1..r.lead |-> <<x_garbage>>]
               \o << <<x_ID, x_chrom, x_locstart, x_locend>> \o (IF r.probes THEN <<x_nummark>> ELSE <<>>) \o <<x_segmean>> >>
               \o [k \in 1..Len(r.rows) |-> IsLine(r.rows[k], r.probes)]
(* doc/importexport.rst: "To add a "chr" prefix, use "-p chr".  To convert chromosome indices 23, 24 and 25 to the   *)
(* names "X", "Y" and "M" ..., use "-c human".  To use an arbitrary mapping of indices to chromosome names, use a   *)
(* comma-separated "key:value" string."  read_seg: "chrom_names ... (Applied before chrom_prefix.)"                  *)
IsMapName(cmap, c) == LET hit == {j \in 1..Len(cmap) : cmap[j][1] = c} IN IF hit = {} THEN c ELSE cmap[MinOf(hit)][2]
IsName(r, c) == r.prefix \o IsMapName(r.cmap, c)
IsSids(r) == FirstSeen([k \in 1..Len(r.rows) |-> r.rows[k].sid])
IsRowsOf(r, sid) == SelectSeq(r.rows, LAMBDA w : w.sid = sid)
(* "--from-log10: Convert base-10 logarithm values in the input to base-2 logs": out = in * log2(10), judged in       *)
(* exact integer arithmetic to the 6 significant digits a .cns file carries (relative 1e-5)                       *)
RECURSIVE ZDigs(_)
ZDigs(d) == IF d = <<>> THEN ZZero ELSE ZAdd(ZMulInt(ZDigs(SubSeq(d, 1, Len(d) - 1)), 10), ZFromInt(d[Len(d)]))
RECURSIVE ZPow10(_)
ZPow10(k) == IF k <= 0 THEN ZOne ELSE ZMulInt(ZPow10(k - 1), 10)
DecScaled(x, k) == Z(x.neg, ZMul(ZDigs(x.d), ZPow10(k + x.e - (Len(x.d) - 1))).m)       \* value * 10^k, k large enough
L2of10 == Z(FALSE, <<4887, 2809, 3219, 3>>)                                             \* log2(10) * 10^12 = 3321928094887
Log10Close(o, x) == LET XL == ZMul(DecScaled(x, 30), L2of10)
                        O  == ZMul(DecScaled(o, 30), ZPow10(12))
                    IN ZLe(ZMulInt(ZAbs(ZSub(O, XL)), 100000), ZAbs(XL))
IsMeanOK(r, tok, mean) == LET p == ParseDecimal(tok) IN
                          p.ok /\ (IF r.log10 THEN Log10Close(ToDec(p), CDec(mean)) ELSE NumEq6(ToDec(p), CDec(mean)))
IsFileOf(r, sid) == LET hit == {j \in 1..Len(r.files) : r.files[j][1] = sid \o x_cns} IN IF hit = {} THEN <<>> ELSE r.files[MinOf(hit)][2]
IsColOf(file, name) == LET hit == {j \in 1..Len(file[1]) : file[1][j] = name} IN IF hit = {} THEN 0 ELSE MinOf(hit)
(* one .cns row agrees with one SEG row on the claimed columns *)
IsRowOK(r, file, line, w) ==
    LET c(n) == line[IsColOf(file, n)] IN
    /\ c(t_chromosome) = IsName(r, w.chrom) /\ c(t_start) = IntText(w.s) /\ c(t_end) = IntText(w.e)
    /\ r.probes => c(t_probes) = IntText(w.probes)
    /\ IsMeanOK(r, c(t_log2), w.mean)
IsSampleOK(r, sid) ==
    LET file == IsFileOf(r, sid) W == IsRowsOf(r, sid) IN
    /\ file # <<>> /\ Len(file) = Len(W) + 1
    /\ \A n \in {t_chromosome, t_start, t_end, t_log2} \cup (IF r.probes THEN {t_probes} ELSE {}) : IsColOf(file, n) > 0
    /\ \A k \in 1..Len(W) : Cardinality({j \in 2..Len(file) : IsRowOK(r, file, file[j], W[k])})
                            = Cardinality({j \in 1..Len(W) : W[j].chrom = W[k].chrom /\ W[j].s = W[k].s /\ W[j].e = W[k].e
                                                             /\ W[j].probes = W[k].probes /\ W[j].mean = W[k].mean})
(* A-layer: parse_seg (header by tab count, python-engine read_csv, astype str, replace, prefix, *= LOG2_10,       *)
(* gene = "-", start -= 1, groupby(sort=False)) ; CopyNumArray ; tabio.write: columns chromosome start end         *)
(* [probes] log2 gene in that order, rows in file order, floats %.6g                                              *)
IsHeaderA(r) == <<t_chromosome, t_start, t_end>> \o (IF r.probes THEN <<t_probes>> ELSE <<>>) \o <<t_log2, t_gene>>
IsFileA_OK(r, sid) ==
    LET file == IsFileOf(r, sid) W == IsRowsOf(r, sid) IN
    /\ Len(file) = Len(W) + 1 /\ file[1] = IsHeaderA(r)
    /\ \A k \in 1..Len(W) :
         LET ln == file[k + 1] n == Len(IsHeaderA(r)) IN
         /\ Len(ln) = n /\ ln[1] = IsName(r, W[k].chrom) /\ ln[2] = IntText(W[k].s) /\ ln[3] = IntText(W[k].e)
         /\ r.probes => ln[4] = IntText(W[k].probes)
         /\ ln[n] = t_dash
         /\ IF r.log10 THEN IsMeanOK(r, ln[n - 1], W[k].mean) ELSE TokExact(ln[n - 1], IF W[k].mean[1] = "i" THEN FCell(DecOfInt(W[k].mean[3])) ELSE W[k].mean)

(* ================================================================= records, clauses ======================= *)
(* every record: op, err ("" or the exception's class name), plus per op                                          *)
(*  refflat  genes, mode ("tx" "cds" "exons" "both"), via ("read" "auto"), ext, file, out, out2, sniffed            *)
(*  notimpl  genes, fmt, file                                                                                     *)
(*  gff      feats, style, tag, keep, file, out                                                                   *)
(*  dict     entries, file, out                                                                                   *)
(*  tracks   blocks, browser, lines, groups, gerr (= err), bed, berr                                               *)
(*  vcfinfo  recs, reader, file, out                                                                              *)
(*  tabna    src, file, out                                                                                       *)
(*  impseg   rows, probes, cmap, prefix, log10, lead, file, files (<<name, tokens>> per file written)              *)
XClauses(op) ==
    CASE op = "refflat" -> {"rf_noerr", "rf_exclusive", "rf_regions", "rf_rowcount", "rf_ucsc_start", "rf_auto"}
      [] op = "notimpl" -> {"ni_reads"}
      [] op = "gff"     -> {"gff_noerr", "gff_keep_type", "gff_coords", "gff_score", "gff_gene"}
      [] op = "dict"    -> {"dict_noerr", "dict_rows", "dict_badline"}
      [] op = "tracks"  -> {"tr_noerr", "tr_noname", "tr_partition", "tr_names", "tr_bed_first"}
      [] op = "vcfinfo" -> {"vi_noerr", "vi_end", "vi_qual"}
      [] op = "tabna"   -> {"tn_noerr", "tn_rows"}
      [] op = "impseg"  -> {"is_noerr", "is_files", "is_rows"}
      [] OTHER -> {}

XHolds(c, r) ==
    LET ok == XNoErr(r) IN
    CASE c \in {"gff_noerr", "vi_noerr", "tn_noerr", "is_noerr"} -> ok
      (* ---- refflat *)
      [] c = "rf_noerr" -> r.mode # "both" => ok
      (* "exons : ... Mutually exclusive with `cds`."; ValueError("Arguments 'cds' and 'exons' are mutually exclusive") *)
      [] c = "rf_exclusive" -> r.mode = "both" => r.err = "ValueError"
      (* every region the option asks for comes back with the row's chromosome, accession, gene name and strand; the  *)
      (* end is the file's end; the start is the file's start under one convention for the whole table               *)
      [] c = "rf_regions" -> (ok /\ r.mode # "both") => (RfRegionsOK(r, 0) \/ RfRegionsOK(r, 1))
      (* genepred module docstring: "In alternative-splicing situations, each transcript has a row in these tables.    *)
      (* Note: The parsers here load the gene information in each row and deduplicate identical rows, but do not      *)
      (* merge non-identical rows."                                                                                  *)
      [] c = "rf_rowcount" -> (ok /\ r.mode # "both") => NRows(r.out) = Len(RfExpRows(FirstSeen(r.genes), r.mode, 0))
      (* genepred module docstring: "these formats are essentially UCSC Genome Browser database dumps" (see the FAQ    *)
      (* it links): UCSC tables hold 0-based half-open positions, so txStart / cdsStart / exonStarts are the in-memory  *)
      (* starts as they stand (doc/fileformats.rst: "Genomic coordinates are 0-indexed, like BED")                     *)
      [] c = "rf_ucsc_start" -> (ok /\ r.mode # "both") => RfRegionsOK(r, 0)
      (* read_auto docstring: "Auto-detect a file's format and use an appropriate parser to read it."; fileformats.rst:*)
      (* "CNVkit will load these files by automatically determining the specific format based on the file contents"   *)
      [] c = "rf_auto" -> (ok /\ r.via = "auto") => (r.sniffed = "refflat" /\ r.out2 = r.out)
      (* ---- notimpl *)
      [] c = "ni_reads" -> ok
      (* ---- gff *)
      [] c = "gff_keep_type" -> ok => XOn(r.out, GffIdCols, GffExp(r, GffIdCols))
      [] c = "gff_coords"    -> ok => XOn(r.out, CSE \o <<t_attribute>>, GffExp(r, CSE \o <<t_attribute>>))
      [] c = "gff_score"     -> ok => XOn(r.out, <<t_score, t_attribute>>, GffExp(r, <<t_score, t_attribute>>))
      [] c = "gff_gene"      -> ok => GffGeneOK(r)
      (* ---- dict *)
      [] c = "dict_noerr"   -> DictPlain(r.entries) => ok
      [] c = "dict_rows"    -> (ok /\ DictPlain(r.entries)) => XOn(r.out, CSE, DictExpRows(r.entries))
      [] c = "dict_badline" -> DictBadFirst(r.entries) => r.err = "ValueError"
      (* ---- tracks *)
      [] c = "tr_noerr"     -> ~TrNoName(r.blocks) => (ok /\ r.berr = "")
      (* parse_bed_track: raise ValueError("No name defined for this track") *)
      [] c = "tr_noname"    -> TrNoName(r.blocks) => r.err = "ValueError"
      [] c = "tr_partition" -> ok => TrPartitionOK(r)
      [] c = "tr_names"     -> ok => TrNamesOK(r)
      [] c = "tr_bed_first" -> (r.berr = "" /\ r.blocks # <<>> /\ r.blocks[1].hasline)
                               => XOn(r.bed, TrBedCols(r.blocks[1].shape), TrBedExp(r.blocks[1]))
      (* ---- vcfinfo *)
      [] c = "vi_end"  -> ok => ViEndOK(r)
      [] c = "vi_qual" -> ok => ViQualOK(r)
      (* ---- tabna *)
      [] c = "tn_rows" -> ok => XOn(r.out, r.src.cols, TnKept(r.src))
      (* ---- impseg: importexport.rst "into one or more CNVkit .cns files"; help "May contain multiple samples" *)
      [] c = "is_files" -> ok => {r.files[j][1] : j \in 1..Len(r.files)} = {sid \o x_cns : sid \in XSet(IsSids(r))}
      [] c = "is_rows"  -> ok => \A sid \in XSet(IsSids(r)) : IsSampleOK(r, sid)

(* ================================================================= premise ================================ *)
GeneModelOK(g) ==
    /\ LabelOK(g.gene) /\ LabelOK(g.acc) /\ NameOK(g.chrom) /\ g.strand \in {t_plus, t_dash}
    /\ g.tx[1] \in 0..MaxCoordinate /\ g.tx[2] \in g.tx[1]..MaxCoordinate
    /\ g.cds[1] \in 0..MaxCoordinate /\ g.cds[2] \in g.cds[1]..MaxCoordinate
    /\ Len(g.exons) \in 1..12 /\ \A j \in 1..Len(g.exons) : g.exons[j][1] \in 0..MaxCoordinate /\ g.exons[j][2] \in g.exons[j][1]..MaxCoordinate
AttrOK(a) == /\ Len(a) = 2 /\ a[1] # <<>> /\ Len(a[1]) <= 30 /\ AllChars(a[1], IsWord) /\ IsAlpha(a[1][1])
             /\ a[2] # <<>> /\ Len(a[2]) <= 40 /\ AllChars(a[2], LAMBDA c : IsWord(c) \/ c \in {ch_dot, ch_minus, ch_colon, ch_comma})
FeatOK(f) ==
    /\ NameOK(f.chrom) /\ LabelOK(f.source) /\ f.type # <<>> /\ Len(f.type) <= 30 /\ AllChars(f.type, IsWord)
    /\ f.s \in 0..MaxCoordinate /\ f.e \in f.s..MaxCoordinate
    /\ (f.score = NACell \/ (f.score[1] = "f" /\ FloatOK(f.score)) \/ (f.score[1] = "i" /\ f.score[3] \in 0..1000))
    /\ f.strand \in {t_plus, t_dash, t_dot, <<63>>} /\ f.phase \in {t_dot, <<48>>, <<49>>, <<50>>}
    /\ Len(f.attrs) \in 1..8 /\ \A j \in 1..Len(f.attrs) : AttrOK(f.attrs[j])
TrTextOK(s, spaces) == s # <<>> /\ Len(s) <= 40 /\ AllChars(s, LAMBDA c : IsWord(c) \/ c \in {ch_dot, ch_minus} \/ (spaces /\ c = ch_space))
                       /\ s[1] # ch_space /\ s[Len(s)] # ch_space
BlockOK(b, k) ==
    /\ b.style \in {"plain", "quoted", "descfirst", "noname"} /\ b.shape \in {"3", "4", "6"}
    /\ (k > 1 => b.hasline)
    /\ b.hasline => /\ (b.style = "noname" /\ b.name = <<>>) \/ (b.style # "noname" /\ TrTextOK(b.name, b.style = "quoted"))
                    /\ (b.desc = <<>> /\ b.style \in {"plain", "quoted"}) \/ TrTextOK(b.desc, TRUE)
    /\ \A j \in 1..Len(b.rows) : LET w == b.rows[j] IN
          /\ NameOK(w.chrom) /\ ~StartsWithSub(w.chrom, t_track) /\ ~StartsWithSub(w.chrom, t_browser)
          /\ w.s \in 0..MaxCoordinate /\ w.e \in 0..MaxCoordinate
          /\ LabelOK(w.gene) /\ w.strand \in {t_plus, t_dash, t_dot}
ViRecOK(v) ==
    /\ NameOK(v.chrom) /\ v.pos \in 1..MaxCoordinate
    /\ v.ref # <<>> /\ Len(v.ref) <= 20 /\ AllChars(v.ref, IsUpper)
    /\ v.alt # <<>> /\ Len(v.alt) <= 20 /\ AllChars(v.alt, LAMBDA c : IsUpper(c) \/ c \in {ch_lt, ch_gt, ch_comma})
    /\ (v.qual = t_dot \/ (IsDecimalText(v.qual) /\ Len(v.qual) <= 12 /\ AllChars(v.qual, LAMBDA c : IsDigit(c) \/ c = ch_dot)))
    /\ Len(v.info) <= 6
    /\ \A j \in 1..Len(v.info) : /\ v.info[j][1] # <<>> /\ Len(v.info[j][1]) <= 12 /\ AllChars(v.info[j][1], IsUpper)
                                 /\ Len(v.info[j][2]) <= 12 /\ AllChars(v.info[j][2], LAMBDA c : IsWord(c) \/ c \in {ch_dot, ch_minus, ch_comma})
                                 /\ v.info[j][1] = x_END => (CanonicalNatText(v.info[j][2]) /\ Len(v.info[j][2]) <= 9)
TnColOK(t, j) == \/ t.cols[j] \in Reserved
                 \/ \A k \in 1..NRows(t) : t.rows[k][j][1] = "i"
                 \/ \A k \in 1..NRows(t) : t.rows[k][j][1] \in {"f", "na"}
SegRowOK(w) ==
    /\ SidOK(w.sid) /\ NameOK(w.chrom) /\ w.s \in 0..MaxCoordinate /\ w.e \in w.s..MaxCoordinate /\ w.probes \in 0..1000000
    /\ \/ (w.mean[1] = "i" /\ w.mean[3] \in -1000..1000)
       \/ (w.mean[1] = "f" /\ FloatOK(w.mean) /\ Len(w.mean[4]) <= 8 /\ w.mean[3] \in -6..3)
XExtOK(ext) == ExtFormat(ext) \in {"", "refflat"}
XPremise(r) ==
    CASE r.op = "refflat" ->
            /\ r.mode \in {"tx", "cds", "exons", "both"} /\ r.via \in {"read", "auto"}
            /\ \A k \in 1..Len(r.genes) : GeneModelOK(r.genes[k])
            /\ r.file = RfLayout(r.genes)
            /\ r.via = "auto" => /\ r.mode = "tx" /\ XExtOK(r.ext) /\ r.genes # <<>>
                                 /\ \A k \in 1..Len(r.genes) : AllChars(r.genes[k].chrom, IsWord)
      [] r.op = "notimpl" ->
            /\ r.fmt \in {"genepred", "genepredext", "refgene", "bed6"} /\ r.genes # <<>>
            /\ \A k \in 1..Len(r.genes) : GeneModelOK(r.genes[k])
            /\ r.file = NiLayout(r.fmt, r.genes)
      [] r.op = "gff" ->
            /\ r.style \in {"gff3", "gtf"} /\ \A k \in 1..Len(r.feats) : FeatOK(r.feats[k])
            /\ (r.tag = <<>> \/ (Len(r.tag) <= 20 /\ AllChars(r.tag, IsWord)))
            /\ (r.keep = <<>> \/ (Len(r.keep) <= 30 /\ AllChars(r.keep, IsWord)))
            /\ r.file = GffLayoutX(r.feats, r.style)
      [] r.op = "dict" ->
            /\ \A k \in 1..Len(r.entries) : /\ r.entries[k][1] \in {"HD", "SQ", "other", "badSN", "badLN", "SQ3"}
                                            /\ NameOK(r.entries[k][2]) /\ r.entries[k][3] \in 1..MaxCoordinate
            /\ r.file = DictLayout(r.entries)
      [] r.op = "tracks" ->
            /\ \A k \in 1..Len(r.blocks) : BlockOK(r.blocks[k], k)
            /\ r.lines = TrLayout(r.blocks, r.browser)
      [] r.op = "vcfinfo" ->
            /\ r.reader \in {"vcf-simple", "vcf-sites"} /\ \A k \in 1..Len(r.recs) : ViRecOK(r.recs[k])
            /\ \A i, j \in 1..Len(r.recs) : i # j => <<r.recs[i].chrom, r.recs[i].pos>> # <<r.recs[j].chrom, r.recs[j].pos>>
            /\ r.file = ViLayout(r.recs)
      [] r.op = "tabna" ->
            /\ HasAll(r.src, CNA5) /\ TableOK(TnFill(r.src)) /\ \A j \in 1..Len(r.src.cols) : TnColOK(r.src, j)
            /\ \A k \in 1..NRows(r.src) : \A j \in 1..Len(r.src.cols) : r.src.rows[k][j][1] = "na" => r.src.cols[j] \notin Reserved
            /\ r.file = Render(Layout("tab", << <<t_verif, r.src>> >>))
      [] r.op = "impseg" ->
            /\ r.rows # <<>> /\ \A k \in 1..Len(r.rows) : SegRowOK(r.rows[k])
            /\ r.lead \in 0..3 /\ Len(r.cmap) <= 6
            /\ \A j \in 1..Len(r.cmap) : Len(r.cmap[j]) = 2 /\ NameOK(r.cmap[j][1]) /\ NameOK(r.cmap[j][2])
            /\ (r.prefix = <<>> \/ (Len(r.prefix) <= 8 /\ AllChars(r.prefix, IsAlpha)))
            /\ \A k \in 1..Len(r.rows) : NameOK(IsName(r, r.rows[k].chrom))
            /\ r.file = IsLayout(r)
      [] OTHER -> FALSE

(* ================================================================= drift ================================== *)
XDrift(r) ==
    CASE r.op = "refflat" -> IF r.mode = "both" THEN FALSE
                             ELSE XNoErr(r) /\ (~AEq(r.out, RfReadA(r.file, r.mode))
                                                \/ (r.via = "auto" /\ r.sniffed # ASniff(r.file, r.ext)))
      [] r.op = "notimpl" -> r.err # NiErrA(r.fmt)
      [] r.op = "gff"     -> XNoErr(r) /\ ~AEq(r.out, GffReadA(r.file, GffTagsOf(r), r.keep))
      [] r.op = "dict"    -> LET a == DictReadA(r.file) IN r.err # a.err \/ (XNoErr(r) /\ ~AEq(r.out, a.out))
      [] r.op = "tracks"  -> LET a == TrGroupsA(r.lines) IN r.err # a.err \/ (XNoErr(r) /\ r.groups # a.groups)
                                                           \/ (r.berr = "" /\ ~AEq(r.bed, TrBedA(r.lines)))
      [] r.op = "vcfinfo" -> LET a == ViReadA(r.file) IN r.err # a.err \/ (XNoErr(r) /\ ~AEq(Project(r.out, a.out.cols), a.out))
      [] r.op = "tabna"   -> XNoErr(r) /\ ~AEq(r.out, TnReadA(r.file))
      [] r.op = "impseg"  -> XNoErr(r) /\ \E sid \in XSet(IsSids(r)) : ~IsFileA_OK(r, sid)
      [] OTHER -> FALSE

(* ================================================================= known findings ========================= *)
XKnownTriggers == {"RefflatStartMinus1", "RefflatIdenticalLines", "ReaderNotImplemented", "GffTagSuffixOfKey", "VcfInfoKeyEndsWithEND"}
XTriggerHolds(t, r) ==
    CASE t = "RefflatStartMinus1" ->        \* any refFlat read that returns a region
            r.op = "refflat" /\ r.mode # "both" /\ r.genes # <<>>
      [] t = "RefflatIdenticalLines" ->     \* the file holds the same line twice
            r.op = "refflat" /\ r.mode # "both" /\ \E i, j \in 1..Len(r.genes) : i < j /\ r.genes[i] = r.genes[j]
      [] t = "ReaderNotImplemented" -> r.op = "notimpl"
      [] t = "GffTagSuffixOfKey" ->         \* an attribute key that is not a tag but ends with one (Alt_Name=, havana_gene )
            r.op = "gff" /\ \E i \in 1..Len(r.feats) : \E j \in 1..Len(r.feats[i].attrs) :
                LET k == r.feats[i].attrs[j][1] tags == GffTagsOf(r) IN
                ~InSeq(k, tags) /\ \E q \in 1..Len(tags) : EndsWithSub(k, tags[q])
      [] t = "VcfInfoKeyEndsWithEND" ->     \* an INFO key other than END that ends in END (CIEND, SVEND), not preceded by END=
            r.op = "vcfinfo" /\ \E i \in 1..Len(r.recs) : \E j \in 1..Len(r.recs[i].info) :
                LET inf == r.recs[i].info IN
                /\ inf[j][1] # x_END /\ EndsWithSub(inf[j][1], x_END) /\ inf[j][2] # <<>>
                /\ \A q \in 1..(j - 1) : ~(inf[q][1] = x_END /\ inf[q][2] # <<>>)
      [] OTHER -> FALSE
(* which clauses a listed finding may break (used by the design check only; the harness reads known_findings.json) *)
XTriggerClauses(t) ==
    CASE t = "RefflatStartMinus1" -> {"rf_ucsc_start"} [] t = "RefflatIdenticalLines" -> {"rf_rowcount"}
      [] t = "ReaderNotImplemented" -> {"ni_reads"} [] t = "GffTagSuffixOfKey" -> {"gff_gene"}
      [] t = "VcfInfoKeyEndsWithEND" -> {"vi_noerr", "vi_end"} [] OTHER -> {}
=============================================================================
