--------------------------- MODULE Bins ---------------------------
(* C12 -- target and antitarget bins partition exactly the space they should.                        *)
(*                                                                                                  *)
(* Tables are sequences of rows <<c, s, e, g>> as in Intervals.tla (c = chromosome id whose natural   *)
(* order is the id order, [s, e) 0-based half-open, g the gene column).  r.names[c] is the name of    *)
(* chromosome c as character codes (the contig-name rule looks into it).                             *)
(*                                                                                                  *)
(* op = "target"     : cnvlib.target.do_target(baits r.a, annotate, do_short_names, do_split, avg)     *)
(*      r.split, r.an/r.ad (average size as a rational: the default is 200/0.75 = 800/3), r.short,   *)
(*      r.annot + r.b (annotation table); r.base = result of the same call without label options,    *)
(*      r.out = result with them (r.err / r.base_err: exception texts, "" if none)                   *)
(* op = "antitarget" : cnvlib.antitarget.do_antitarget(targets r.a, access r.b or None, avg, min)      *)
(*      r.has_access, r.avg, r.min (0 = not given: the default), r.pad (the 500-base margin; an       *)
(*      abstract 1 or 2 units in the design check), r.telo (start of a guessed chromosome extent)     *)
(*                                                                                                  *)
(* P-layer: the property as stated, in elementary-interval (base-set) form.                          *)
(* A-layer: the code case for case: drop zero-width, subdivide; drop_noncanonical_contigs /           *)
(*          guess_chromosome_regions, resize(-pad), subtract(resize(+pad)), subdivide(avg, min).      *)
EXTENDS Naturals, Integers, Sequences, FiniteSets, SequencesExt, FiniteSetsExt, Functions, TLC, ContigNames

(* Intervals.tla is reused through a named instance (its Clauses/Holds/... are C06's) *)
IV == INSTANCE Intervals
C(r) == IV!C(r)
S(r) == IV!S(r)
E(r) == IV!E(r)
G(r) == IV!G(r)
Idx(t) == IV!Idx(t)
Chroms(t) == IV!Chroms(t)
OnChrom(t, c) == IV!OnChrom(t, c)
Coords(t) == IV!Coords(t)
Covers(t, c, x) == IV!Covers(t, c, x)
BreaksOn(ts, c) == IV!BreaksOn(ts, c)
MergeSweep(t, bp) == IV!MergeSweep(t, bp)            \* skgenome merge
SubtractMerged(a, b) == IV!SubtractMerged(a, b)      \* skgenome subtract as repaired (subtrahend merged first)
Resize(t, bp, size) == IV!Resize(t, bp, size)        \* GenomicArray.resize_ranges
RoundHalfEven(num, den) == IV!RoundHalfEven(num, den)

NonEmptyRows(t) == SelectSeq(t, LAMBDA r : S(r) # E(r))
SetGene(t, g)   == [k \in Idx(t) |-> <<C(t[k]), S(t[k]), E(t[k]), g>>]
NoErr(r) == r.err = ""

(* ================================================================= P-layer: target ===== *)
(* "each merged bait cut into max(1, round(length/avg)) equal bins (+-1 base)", avg = an/ad; at an exact .5 *)
(* either rounding is accepted                                                                             *)
SplitOK(a, an, ad, out) ==
    LET mt == MergeSweep(a, 0) IN
    /\ \A n \in Idx(mt) :
         LET R == mt[n]
             span == E(R) - S(R)
             inside == SelectSeq(out, LAMBDA o : C(o) = C(R) /\ S(o) >= S(R) /\ E(o) <= E(R))
             sizes == {E(inside[k]) - S(inside[k]) : k \in Idx(inside)}
             q == (span * ad) \div an
             rem == (span * ad) % an
             want == IF 2*rem < an THEN {IF q = 0 THEN 1 ELSE q}
                     ELSE IF 2*rem > an THEN {q + 1}
                     ELSE {IF q = 0 THEN 1 ELSE q, q + 1}
         IN /\ Len(inside) \in want
            /\ S(inside[1]) = S(R) /\ E(inside[Len(inside)]) = E(R)
            /\ \A k \in 1..Len(inside)-1 : E(inside[k]) = S(inside[k+1])
            /\ Max(sizes) - Min(sizes) <= 1
    /\ \A k \in Idx(out) : \E n \in Idx(mt) : C(out[k]) = C(mt[n]) /\ S(out[k]) >= S(mt[n]) /\ E(out[k]) <= E(mt[n])

(* ================================================================= P-layer: antitarget = *)
EffMin(r) == IF r.min = 0 THEN 2 * (r.avg \div 32) ELSE r.min      \* "the minimum": 2*int(avg * 2^-5) when not given
Targeted(r, c)   == c \in Chroms(r.a)
(* the accessible regions: the table given, or the guessed chromosome extents [telo, end of the contig's targets) *)
GuessP(r) == LET cs == SetToSortSeq(Chroms(r.a), <)
             IN [n \in 1..Len(cs) |-> <<cs[n], r.telo, Max({E(r.a[k]) : k \in {j \in Idx(r.a) : C(r.a[j]) = cs[n]}}), "">>]
AccessP(r) == IF r.has_access THEN r.b ELSE GuessP(r)
(* "the accessible regions shrunk by the 500-base margin" *)
ShrunkP(r) == LET ac == AccessP(r)
              IN SelectSeq([k \in Idx(ac) |-> <<C(ac[k]), S(ac[k]) + r.pad, E(ac[k]) - r.pad, "">>], LAMBDA x : S(x) < E(x))
(* the bases "within 500 bases of any target" *)
NearTargetP(r) == [k \in Idx(r.a) |-> <<C(r.a[k]), S(r.a[k]) - r.pad, E(r.a[k]) + r.pad, "">>]
(* maximal stretches of bases of chromosome c covered by `pos` and not by `neg` (elementary-interval form) *)
StretchesOf(pos, neg, c) ==
    LET bs == SetToSortSeq(BreaksOn({pos, neg}, c), <)
        m  == Len(bs) - 1
        in(k) == Covers(pos, c, bs[k]) /\ ~Covers(neg, c, bs[k])
        ss == SetToSortSeq({bs[k]   : k \in {j \in 1..m : in(j) /\ (j = 1 \/ ~in(j-1))}}, <)
        es == SetToSortSeq({bs[k+1] : k \in {j \in 1..m : in(j) /\ (j = m \/ ~in(j+1))}}, <)
    IN [k \in 1..Len(ss) |-> <<c, ss[k], es[k], "">>]

(* every stretch of off-target accessible sequence of at least the minimum size on the contigs cs is covered by bins *)
CoversFreeOn(r, cs) ==
    LET sh == ShrunkP(r)
        nt == NearTargetP(r)
    IN \A ch \in cs :
          LET d == StretchesOf(sh, nt, ch) IN
          \A k \in Idx(d) : E(d[k]) - S(d[k]) >= EffMin(r) =>
              \A x \in BreaksOn({sh, nt, r.out}, ch) : (S(d[k]) <= x /\ x < E(d[k])) => Covers(r.out, ch, x)

TargetClauses == {"tgt_noerr", "tgt_unsplit_unchanged", "tgt_split_disjoint_ordered", "tgt_split_covers_union",
                  "tgt_split_equal_bins", "tgt_labels_keep_bins"}
AntiClauses   == {"anti_noerr", "anti_named", "anti_on_access_contigs", "anti_inside_shrunk_access", "anti_clear_of_targets",
                  "anti_disjoint", "anti_at_least_min", "anti_at_most_1p5_avg", "anti_covers_free_targeted",
                  "anti_covers_free_canonical"}
Clauses(op) == CASE op = "target" -> TargetClauses [] op = "antitarget" -> AntiClauses [] OTHER -> {}

Holds(c, r) ==
    CASE c = "tgt_noerr" -> r.base_err = ""
      (* "without --split returns the non-empty baits unchanged" *)
      [] c = "tgt_unsplit_unchanged" -> (r.base_err = "" /\ ~r.split) => r.base = NonEmptyRows(r.a)
      (* "--split returns non-overlapping bins in genomic order" *)
      [] c = "tgt_split_disjoint_ordered" ->
            (r.base_err = "" /\ r.split) => (IV!PositiveW(r.base) /\ IV!StrictSortedDisjoint(r.base, 0))
      (* "covering exactly the union of the non-empty baits" *)
      [] c = "tgt_split_covers_union" ->
            (r.base_err = "" /\ r.split) =>
                LET ne == NonEmptyRows(r.a) IN IV!SameBases({ne}, r.base, LAMBDA ch, x : Covers(ne, ch, x))
      (* "each merged bait cut into max(1, round(length/avg)) equal bins (+-1 base)" *)
      [] c = "tgt_split_equal_bins" -> (r.base_err = "" /\ r.split) => SplitOK(NonEmptyRows(r.a), r.an, r.ad, r.base)
      (* "label shortening and annotation never change the number or coordinates of bins" *)
      [] c = "tgt_labels_keep_bins" -> r.base_err = "" => (NoErr(r) /\ Coords(r.out) = Coords(r.base))
      [] c = "anti_noerr" -> NoErr(r)
      (* "returns bins named Antitarget" *)
      [] c = "anti_named" -> NoErr(r) => \A k \in Idx(r.out) : G(r.out[k]) = "Antitarget"
      [] c = "anti_on_access_contigs" -> NoErr(r) => Chroms(r.out) \subseteq Chroms(AccessP(r))
      (* "that lie inside the accessible regions shrunk by the 500-base margin" *)
      [] c = "anti_inside_shrunk_access" ->
            NoErr(r) => LET sh == ShrunkP(r) IN
                \A ch \in Chroms(r.out) : \A x \in BreaksOn({sh, r.out}, ch) : Covers(r.out, ch, x) => Covers(sh, ch, x)
      (* "never come within 500 bases of any target (also when targets overlap or nest)" *)
      [] c = "anti_clear_of_targets" ->
            NoErr(r) => LET nt == NearTargetP(r) IN
                \A ch \in Chroms(r.out) : \A x \in BreaksOn({nt, r.out}, ch) : Covers(r.out, ch, x) => ~Covers(nt, ch, x)
      (* "do not overlap each other" *)
      [] c = "anti_disjoint" ->
            NoErr(r) => \A j, k \in Idx(r.out) :
                (j < k /\ C(r.out[j]) = C(r.out[k])) => (E(r.out[j]) <= S(r.out[k]) \/ E(r.out[k]) <= S(r.out[j]))
      (* "are each at least the minimum ..." *)
      [] c = "anti_at_least_min" ->
            NoErr(r) => \A k \in Idx(r.out) : LET w == E(r.out[k]) - S(r.out[k]) IN w >= 1 /\ w >= EffMin(r)
      (* "... and at most 1.5x the average size" *)
      [] c = "anti_at_most_1p5_avg" ->
            NoErr(r) => \A k \in Idx(r.out) : 2 * (E(r.out[k]) - S(r.out[k])) <= 3 * r.avg
      (* "together cover every stretch of such off-target accessible sequence that is at least the minimum size, *)
      (*  on every contig that is targeted ..."                                                                 *)
      [] c = "anti_covers_free_targeted" -> NoErr(r) => CoversFreeOn(r, {x \in Chroms(ShrunkP(r)) : Targeted(r, x)})
      (* "... or canonically named" *)
      [] c = "anti_covers_free_canonical" ->
            NoErr(r) => CoversFreeOn(r, {x \in Chroms(ShrunkP(r)) : ~Targeted(r, x) /\ CanonicalName(r.names[x])})

(* premises: baits/targets sorted as tabio.read delivers them, non-negative, start <= end; averages positive.   *)
(* antitarget: targets non-empty with positive width; an access table, if given, is non-empty, has positive      *)
(* widths and shares a contig with the targets (the code refuses disjoint name sets: chr1-vs-1 check);          *)
(* every contig has a name                                                                                      *)
WellFormed(t) == IV!Sorted(t) /\ IV!NonNeg(t) /\ \A k \in Idx(t) : S(t[k]) <= E(t[k])
Premise(r) ==
    /\ WellFormed(r.a)
    /\ r.op = "target" => (r.an >= 1 /\ r.ad >= 1 /\ (r.annot => (r.b # <<>> /\ IV!PositiveW(r.b) /\ Chroms(NonEmptyRows(r.a)) \cap Chroms(r.b) # {})))
    /\ r.op = "antitarget" =>
          /\ r.a # <<>> /\ IV!PositiveW(r.a)
          /\ r.avg >= 1 /\ r.min >= 0 /\ r.pad >= 0 /\ r.telo >= 0
          /\ \A c \in Chroms(r.a) \cup Chroms(r.b) : c \in 1..Len(r.names) /\ Len(r.names[c]) >= 1
          /\ r.has_access => (r.b # <<>> /\ IV!PositiveW(r.b) /\ IV!NonNeg(r.b) /\ Chroms(r.a) \cap Chroms(r.b) # {})

(* ================================================================= A-layer ============ *)
(* subdivide.py::_split_targets with a rational average an/ad;  (m*span) div n without overflowing 32 bits *)
MulDiv(m, span, n) == m * (span \div n) + (m * (span % n)) \div n
SplitRowQ(row, an, ad) ==
    LET span == E(row) - S(row)
        n0 == RoundHalfEven(span * ad, an)
        n  == IF n0 = 0 THEN 1 ELSE n0
    IN IF n = 1 THEN <<row>>
       ELSE [m \in 1..n |-> <<C(row), S(row) + MulDiv(m - 1, span, n),
                               IF m = n THEN E(row) ELSE S(row) + MulDiv(m, span, n), G(row)>>]
SubdivideQ(t, an, ad, min) ==
    LET keep == SelectSeq(MergeSweep(t, 0), LAMBDA row : E(row) - S(row) >= min)
    IN FlattenSeq([n \in Idx(keep) |-> SplitRowQ(keep[n], an, ad)])

(* do_target: copy, drop zero-width regions, subdivide(avg, 0) if asked (`base`); label shortening: see ShortenLabels *)
ATarget(r) == LET ne == NonEmptyRows(r.a) IN IF r.split THEN SubdivideQ(ne, r.an, r.ad, 0) ELSE ne

(* antitarget.drop_noncanonical_contigs *)
MaxLenOf(r, cs) == Max({Len(r.names[c]) : c \in cs})
SkippedContigs(r) ==
    LET acs == Chroms(r.b)
        tcs == Chroms(r.a)
        untgt == acs \ tcs
    IN IF \E c \in tcs : CanonicalName(r.names[c])
       THEN {c \in untgt : ~CanonicalName(r.names[c])}                  \* untargeted alternative contigs, mitochondria
       ELSE {c \in untgt : Len(r.names[c]) > MaxLenOf(r, tcs)}          \* "alternative contigs have longer names"
(* antitarget.guess_chromosome_regions: contigs in order of first appearance, end of the contig's LAST row *)
GuessA(r) == LET cs == IV!UniqSeq([k \in Idx(r.a) |-> C(r.a[k])], <<>>)
             IN [n \in 1..Len(cs) |-> LET rows == OnChrom(r.a, cs[n]) IN <<cs[n], r.telo, E(rows[Len(rows)]), "">>]
AccessA(r) == IF r.has_access THEN SelectSeq(r.b, LAMBDA row : C(row) \notin SkippedContigs(r)) ELSE GuessA(r)
(* compare_chrom_names raises when the name sets are disjoint *)
AAntiErr(r) == r.has_access /\ Chroms(r.b) # {} /\ Chroms(r.a) \cap Chroms(r.b) = {}
AAnti(r) == SetGene(SubdivideQ(SubtractMerged(Resize(AccessA(r), 0 - r.pad, -1), Resize(r.a, r.pad, -1)),
                               r.avg, 1, EffMin(r)),
                    "Antitarget")

(* target.shorten_labels, the accession-run state machine (modelled when r.short and not r.annot):               *)
(* r.tok[k] = the names of the k-th label fed to it (the label of r.base[k] split at commas; a name is a          *)
(* sequence of character codes), r.out_tok[k] = the label it produced.  min(names, key=len) takes any shortest    *)
(* name (set iteration order), so the model gives the *set* of admissible results per row.                       *)
txt_mRNA == <<109, 82, 78, 65>>                         \* "mRNA"
BarCode  == 124                                          \* "|"
FilterNames(names) ==                                    \* filter_names: drop mRNA accessions if something else is left
    IF Cardinality(names) > 1
    THEN LET ok == {n \in names : ~StartsWithSub(n, txt_mRNA)} IN IF ok # {} THEN ok ELSE names
    ELSE names
TrimName(n) ==                                           \* 'DB|accession' -> accession
    IF Len(n) > 2 /\ \E k \in 2..(Len(n)-1) : n[k] = BarCode
    THEN LET last == Max({k \in 1..Len(n) : n[k] = BarCode}) IN SubSeq(n, last + 1, Len(n))
    ELSE n
ShortestNames(names) ==                                  \* shortest_name: every result min(..., key=len) may give
    LET f == FilterNames(names)
        m == Min({Len(n) : n \in f})
    IN {TrimName(n) : n \in {x \in f : Len(x) = m}}
Repeat(x, n) == [j \in 1..n |-> x]
(* state: <<curr_names, curr_gene_count, emitted>>; one step per label *)
ShortenStep(st, label) ==
    LET next == {label[k] : k \in 1..Len(label)}
        ov   == st[1] \cap next
    IN IF ov # {} THEN <<FilterNames(ov), st[2] + 1, st[3]>>                      \* continuing the same gene
       ELSE <<next, 1, st[3] \o (IF st[2] > 0 THEN Repeat(ShortestNames(st[1]), st[2]) ELSE <<>>)>>   \* emit the old gene
RECURSIVE ShortenRange(_, _, _, _)
ShortenRange(labels, lo, hi, st) ==                      \* left fold, split in halves to keep TLC's stack shallow
    IF lo > hi THEN st
    ELSE IF lo = hi THEN ShortenStep(st, labels[lo])
    ELSE LET mid  == (lo + hi) \div 2
             left == ShortenRange(labels, lo, mid, st)
         IN IF left[2] >= 0 THEN ShortenRange(labels, mid + 1, hi, left) ELSE left
ShortenLabels(labels) ==
    LET st == ShortenRange(labels, 1, Len(labels), <<{}, 0, <<>>>>)
    IN st[3] \o (IF st[2] > 0 THEN Repeat(ShortestNames(st[1]), st[2]) ELSE <<>>)     \* final emission
LabelsModelled(r) == r.op = "target" /\ r.short /\ ~r.annot /\ r.base_err = "" /\ NoErr(r)
LabelDrift(r) == LabelsModelled(r) /\
    LET adm == ShortenLabels(r.tok)
    IN ~(Len(adm) = Len(r.out_tok) /\ \A k \in 1..Len(adm) : r.out_tok[k] \in adm[k])

ALayer(r) == IF r.op = "target" THEN ATarget(r) ELSE AAnti(r)
(* the code computes cut points in floating point (start + int(i * (span / nbins))): may fall one base short *)
Near(x, y) == x - y \in {-1, 0, 1}
BinsNear(o, e) == /\ Len(o) = Len(e)
                  /\ \A k \in Idx(o) : C(o[k]) = C(e[k]) /\ Near(S(o[k]), S(e[k])) /\ Near(E(o[k]), E(e[k])) /\ G(o[k]) = G(e[k])
Drift(r) == IF r.op = "target" THEN (r.base_err = "" /\ ~BinsNear(r.base, ATarget(r))) \/ LabelDrift(r)
            ELSE IF NoErr(r) THEN (AAntiErr(r) \/ ~BinsNear(r.out, AAnti(r))) ELSE ~AAntiErr(r)

(* ================================================================= known findings ===== *)
(* Repaired finding (kept as documentation and diagnostic label; /repo "fix: target keeps names aligned with bins   *)
(* after dropping zero-width baits"): annotation was assigned through a fresh 0..n-1 index while the bait table   *)
(* kept its original row labels after zero-width rows were dropped: a kept row after a dropped one got a missing  *)
(* name, and shortening then raised AttributeError (no bins at all).                                              *)
AnnotateAfterDroppedRow(r) ==
    /\ r.op = "target" /\ r.annot /\ ~r.split
    /\ \E j, k \in Idx(r.a) : j < k /\ S(r.a[j]) = E(r.a[j]) /\ S(r.a[k]) # E(r.a[k])
(* OPEN: with no canonically named targeted contig the code keeps untargeted contigs by name length instead: an *)
(* untargeted, canonically named access contig with a longer name than every targeted contig gets no bins      *)
NoCanonicalTarget(r) ==
    /\ r.op = "antitarget" /\ r.has_access
    /\ ~\E c \in Chroms(r.a) : CanonicalName(r.names[c])
    /\ \E c \in Chroms(r.b) \ Chroms(r.a) : CanonicalName(r.names[c]) /\ Len(r.names[c]) > MaxLenOf(r, Chroms(r.a))
(* OPEN: min_bin_size filters regions, not bins (subdivide.py `if span >= min_size`): an explicitly given minimum *)
(* larger than the size a split bin reaches -- some free stretch of >= min bases is cut in n >= 2 bins of        *)
(* span div n < min bases (needs min > ~0.75 avg; never with the default minimum avg/16)                          *)
MinAboveSplitBin(r) ==
    /\ r.op = "antitarget" /\ r.min # 0
    /\ LET sh == ShrunkP(r)
           nt == NearTargetP(r)
       IN \E ch \in Chroms(sh) : LET d == StretchesOf(sh, nt, ch) IN
             \E k \in Idx(d) : LET span == E(d[k]) - S(d[k])
                                   n == RoundHalfEven(span, r.avg)
                               IN span >= EffMin(r) /\ n >= 2 /\ span \div n < EffMin(r)
KnownTriggers == {"AnnotateAfterDroppedRow", "NoCanonicalTarget", "MinAboveSplitBin"}
TriggerHolds(t, r) ==
    CASE t = "AnnotateAfterDroppedRow" -> AnnotateAfterDroppedRow(r)
      [] t = "NoCanonicalTarget" -> NoCanonicalTarget(r)
      [] t = "MinAboveSplitBin" -> MinAboveSplitBin(r)
      [] OTHER -> FALSE
=============================================================================
