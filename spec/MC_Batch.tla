--------------------------- MODULE MC_Batch ---------------------------
(* Design check + enumerator for X08 / Batch.                                                                          *)
(*                                                                                                                   *)
(* op "batch": the A-layer state machine of Batch.tla explored from every configuration of the scope (Init picks the    *)
(* configuration, Next = Batch!ASucc: one action per phase / loop iteration; the tasks of a process pool interleave).   *)
(* Invariants: DesignOK (every finished run of the A-layer satisfies every P-layer clause, modulo the open findings),   *)
(* RefBeforeSamples, RefusalLeavesNothing, NoFileTwice.  The finished states' configurations are replayed through the   *)
(* real `cnvkit.py batch` (direction 1).                                                                              *)
(*   Scope "options":  every combination of method x targets x antitargets x access (none / own / the targets file) x    *)
(*                     fasta x normals (not given / none / one) x reference reused, one tumor sample: all refusals and   *)
(*                     all accepted shapes of the command line                                                        *)
(*   Scope "pipeline": the accepted shapes (hybrid with access and fasta / bare / with given antitargets, amplicon, wgs    *)
(*                     from the fasta / from access / from targets, reused reference) x tumors 0..2 x normals 0..2, and   *)
(*                     with one sample each the variations: output directory, --output-reference, plots, 2 processes,    *)
(*                     --annotate, a file already at the reference path, duplicate sample ids, other BAM name shapes      *)
(*   Scope "pool":     the interleavings of a process pool (-p 2): four coverage tasks of two normals; two samples        *)
(* the helper operations: one call -> ret step per input of the small scope.                                           *)
EXTENDS Batch
CONSTANTS Ops, Scope

Fl(d, a, b) == F(d, <<a, b>>)
Baits == Fl("in", "baits", "bed")
Access == Fl("", "access", "bed")
AntiBed == Fl("", "anti", "bed")
Fasta == Fl("", "genome", "fa")
RefFlat == Fl("", "refFlat", "txt")
OldRef == Fl("refs", "my", "cnn")
T1 == Fl("", "T1", "bam")
T2 == Fl("", "T2", "bam")
N1 == Fl("", "N1", "bam")
N2 == Fl("", "N2", "bam")
N3 == Fl("", "N3", "bam")
AltT1 == Fl("alt", "T1", "bam")                      \* same sample id as T1.bam
S2 == F("runs", <<"S2", "recal", "bam">>)            \* fbase: a known multi-part extension
S3 == F("runs", <<"S3", "x", "bam">>)                \* fbase strips only the last extension
Base == [method |-> "hybrid", tgt |-> Baits, anti |-> NoFile, acc |-> NoFile, fasta |-> NoFile, annot |-> NoFile, ref |-> NoFile,
         outref |-> NoFile, short |-> FALSE, tavg |-> 0, aavg |-> 0, amin |-> 0, has_n |-> TRUE, normals |-> <<>>,
         tumors |-> <<T1>>, outdir |-> "out", scatter |-> FALSE, diagram |-> FALSE, procs |-> 1, segm |-> "haar",
         yflag |-> FALSE, count |-> FALSE, droplow |-> FALSE, cluster |-> FALSE, prior_ref |-> FALSE]

OptionCfgs ==
    {[Base EXCEPT !.method = m, !.tgt = t, !.anti = a, !.acc = g, !.fasta = f, !.has_n = n[1], !.normals = n[2], !.ref = r]
        : m \in {"hybrid", "amplicon", "wgs"}, t \in {NoFile, Baits}, a \in {NoFile, AntiBed}, g \in {NoFile, Access, Baits},
          f \in {NoFile, Fasta}, n \in {<<FALSE, <<>> >>, <<TRUE, <<>> >>, <<TRUE, <<N1>> >>}, r \in {NoFile, OldRef}}
    \cup {[Base EXCEPT !.ref = OldRef, !.has_n = FALSE, !.tgt = NoFile, !.short = s, !.tavg = x[1], !.aavg = x[2], !.amin = x[3], !.annot = an]
        : s \in BOOLEAN, x \in {<<0, 0, 0>>, <<300, 0, 0>>, <<0, 500, 0>>, <<0, 0, 100>>, <<300, 500, 100>>}, an \in {NoFile, RefFlat}}

Shapes ==
    { [Base EXCEPT !.acc = Access, !.fasta = Fasta, !.aavg = 500, !.amin = 100],
      Base,
      [Base EXCEPT !.anti = AntiBed, !.fasta = Fasta],
      [Base EXCEPT !.method = "amplicon"],
      [Base EXCEPT !.method = "amplicon", !.acc = Baits, !.fasta = Fasta],
      [Base EXCEPT !.method = "wgs", !.tgt = NoFile, !.fasta = Fasta],
      [Base EXCEPT !.method = "wgs", !.tgt = NoFile, !.acc = Access],
      [Base EXCEPT !.method = "wgs", !.tavg = 3000] }
ReuseShapes == { [Base EXCEPT !.ref = OldRef, !.has_n = FALSE, !.tgt = NoFile],
                 [Base EXCEPT !.ref = OldRef, !.has_n = FALSE, !.tgt = NoFile, !.method = "amplicon"] }
TumorSets == {<<>>, <<T1>>, <<T1, T2>>}
NormalSets == {<<>>, <<N1>>, <<N1, N2>>}
Variations(s) ==
    { [s EXCEPT !.outdir = ""], [s EXCEPT !.outdir = "a/b"], [s EXCEPT !.scatter = TRUE, !.diagram = TRUE],
      [s EXCEPT !.scatter = TRUE], [s EXCEPT !.procs = 2], [s EXCEPT !.tumors = <<S2, S3>>],
      [s EXCEPT !.tumors = <<T1, AltT1>>], [s EXCEPT !.segm = "none"], [s EXCEPT !.droplow = TRUE, !.count = TRUE, !.yflag = TRUE] }
NewRefVariations(s) ==
    { [s EXCEPT !.outref = Fl("refs", "new", "cnn")], [s EXCEPT !.outref = Fl("", "mine", "cnn"), !.outdir = ""],
      [s EXCEPT !.prior_ref = TRUE], [s EXCEPT !.prior_ref = TRUE, !.outref = Fl("refs", "new", "cnn"), !.normals = <<N1>>],
      [s EXCEPT !.annot = RefFlat, !.short = TRUE], [s EXCEPT !.procs = 2, !.normals = <<N1, N2>>],
      [s EXCEPT !.normals = <<N1, T1>>], [s EXCEPT !.normals = <<N1, N2, N3>>, !.cluster = TRUE, !.tumors = <<T1>>] }
PipelineCfgs ==
    {[s EXCEPT !.tumors = t, !.normals = n] : s \in Shapes, t \in TumorSets, n \in NormalSets}
    \cup {[s EXCEPT !.tumors = t] : s \in ReuseShapes, t \in TumorSets}
    \cup UNION {Variations(s) : s \in Shapes \cup ReuseShapes}
    \cup UNION {NewRefVariations(s) : s \in Shapes}
PoolCfgs ==      \* the interleavings of a process pool: two normals (four coverage tasks), two samples
    { [Base EXCEPT !.procs = 2, !.normals = <<N1, N2>>, !.tumors = <<T1>>, !.diagram = TRUE],
      [Base EXCEPT !.procs = 2, !.ref = OldRef, !.has_n = FALSE, !.tgt = NoFile, !.tumors = <<T1, T2>>] }
BatchInputs == {[op |-> "batch", cfg |-> c] : c \in (CASE Scope = "options" -> OptionCfgs [] Scope = "pipeline" -> PipelineCfgs
                                                        [] Scope = "pool" -> PoolCfgs [] OTHER -> {})}

(* ---- helper operations: small scopes *)
Times == {10, 20, 30}
IdxStates == {[ex |-> FALSE, t |-> 0]} \cup {[ex |-> TRUE, t |-> t] : t \in Times}
IndexInputs == {[op |-> "index", kind |-> k, bam_t |-> 20, i1 |-> a, i2 |-> b] : k \in {"bam", "cram"}, a \in IdxStates, b \in IdxStates}
RECURSIVE SeqsOver(_, _)
SeqsOver(S, n) == IF n = 0 THEN {<<>>} ELSE LET p == SeqsOver(S, n - 1) IN p \cup {Append(s, x) : s \in {q \in p : Len(q) = n - 1}, x \in S}
PosReads == {[tid |-> t, pos |-> p, q |-> 0] : t \in {0, 1}, p \in {5, 9}} \cup {[tid |-> -1, pos |-> -1, q |-> 0]}
NameReads == {[tid |-> 0, pos |-> 5, q |-> q] : q \in 1..3}
SortedInputs == {[op |-> "sorted", by_name |-> FALSE, span |-> sp, reads |-> s] : sp \in {2, 50}, s \in SeqsOver(PosReads, 3)}
                \cup {[op |-> "sorted", by_name |-> TRUE, span |-> sp, reads |-> s] : sp \in {2, 50}, s \in SeqsOver(NameReads, 3)}
StatReads == ({[tid |-> t, unm |-> u, qlen |-> q] : t \in {0, 1}, u \in BOOLEAN, q \in {0, 4, 7}} \ {[tid |-> 1, unm |-> TRUE, qlen |-> 0]})
             \cup {[tid |-> -1, unm |-> TRUE, qlen |-> 4]}
StatsInputs == {[op |-> "bamstats", contigs |-> <<100, 60, 80>>, span |-> sp, reads |-> s] : sp \in {2, 1000}, s \in SeqsOver(StatReads, 2)}
               \cup {[op |-> "bamstats", contigs |-> <<100, 60, 80>>, span |-> 3, reads |-> << [tid |-> 0, unm |-> FALSE, qlen |-> a],
                        [tid |-> 0, unm |-> FALSE, qlen |-> b], [tid |-> 2, unm |-> FALSE, qlen |-> c], [tid |-> 2, unm |-> FALSE, qlen |-> 9] >>]
                       : a \in {3, 8}, b \in {0, 5}, c \in {4, 6}}
PoolInputs == {[op |-> "pool", nprocs |-> n, xs |-> xs, a |-> 3, b |-> -2] : n \in {-1, 0, 1, 2, 3}, xs \in {<<>>, <<5>>, <<4, -1, 4, 0>>}}
RmInputs == {[op |-> "rm", kind |-> k] : k \in {"file", "missing", "dir", "link"}}
ChunkInputs == {[op |-> "chunks", lines |-> s, size |-> z, gz |-> g] : s \in SeqsOver({-1, 1, 2}, 4), z \in {1, 2, 3}, g \in BOOLEAN}

Inputs == (IF "batch" \in Ops THEN BatchInputs ELSE {}) \cup (IF "index" \in Ops THEN IndexInputs ELSE {})
          \cup (IF "sorted" \in Ops THEN SortedInputs ELSE {}) \cup (IF "bamstats" \in Ops THEN StatsInputs ELSE {})
          \cup (IF "pool" \in Ops THEN PoolInputs ELSE {}) \cup (IF "rm" \in Ops THEN RmInputs ELSE {})
          \cup (IF "chunks" \in Ops THEN ChunkInputs ELSE {})

VARIABLES inp, st
vars == <<inp, st>>
Init == inp \in Inputs /\ st = AInit
(* one named action per phase of the batch machine (coverage statistics show each of them taken) *)
Phase(pc) == inp.op = "batch" /\ st.pc = pc /\ st' \in ASucc(inp.cfg, st) /\ UNCHANGED inp
Validate == Phase("validate")
DupIter == Phase("dups")
RefCheck == Phase("ref.check")
RefWgs == Phase("ref.wgs")
RefTarget == Phase("ref.target")
RefAnti == Phase("ref.anti")
NormalCoverage == Phase("ref.normals")
RefBuild == Phase("ref.build")
ReuseExtract == Phase("reuse")
SampleStep == Phase("samples")
HelperCall == inp.op # "batch" /\ st.pc = "validate" /\ st' = [st EXCEPT !.pc = "done"] /\ UNCHANGED inp
Next == Validate \/ DupIter \/ RefCheck \/ RefWgs \/ RefTarget \/ RefAnti \/ NormalCoverage \/ RefBuild \/ ReuseExtract
        \/ SampleStep \/ HelperCall
Spec == Init /\ [][Next]_vars

(* ---- the A-layer's result as a record the P-layer can judge.  Content ids: the A-layer asserts the equalities with the    *)
(* documented single steps (same id in `step` / `fresh` / `prior`), so those clauses hold by construction here; the names,    *)
(* refusals, row counts and ordering are what the design check examines.                                                  *)
EmptyAnti(c, f) == NonHybrid(c) /\ Len(f.n) >= 2 /\ (SubSeq(f.n, Len(f.n) - 1, Len(f.n)) = <<"antitarget", "bed">> \/ SubSeq(f.n, Len(f.n) - 1, Len(f.n)) = CovA)
BatchRec(c, s) ==
    LET rp == RefPath(c)
        bk == F(rp.d, rp.n \o <<"1">>)
        ent(i) == [f |-> s.files[i], id |-> IF s.files[i] = bk /\ c.prior_ref THEN 1000 ELSE i, rows |-> IF EmptyAnti(c, s.files[i]) THEN 0 ELSE 1, rank |-> i]
        created == [i \in 1..Len(s.files) |-> ent(i)]
        chg == IF s.changed = {} THEN <<>> ELSE <<[f |-> rp, id |-> 999, rows |-> 1, rank |-> Len(s.files)]>>
        all == created \o chg
    IN [op |-> "batch", cfg |-> c, err |-> s.err, created |-> created, changed |-> chg, gone |-> <<>>,
        step |-> [i \in 1..Len(all) |-> [f |-> all[i].f, id |-> all[i].id]],
        fresh |-> [i \in 1..Len(all) |-> [f |-> F("pre", all[i].f.n), id |-> all[i].id]],
        prior |-> IF c.prior_ref THEN <<[f |-> rp, id |-> 1000]>> ELSE <<>>, tgt_min_run |-> 1]
HelperRec(r) ==
    CASE r.op = "index" -> LET a == IndexCoded(r)
                               post(k) == [ex |-> IdxPre(r, k).ex \/ k \in a.touched, t |-> IF k \in a.touched THEN 40 ELSE IdxPre(r, k).t, touched |-> k \in a.touched]
                           IN [op |-> "index", kind |-> r.kind, bam_t |-> r.bam_t, i1 |-> r.i1, i2 |-> r.i2, ret |-> a.ret, calls |-> a.calls,
                               p1 |-> post(1), p2 |-> post(2), err |-> ""]
      [] r.op = "sorted" -> [op |-> "sorted", by_name |-> r.by_name, span |-> r.span, reads |-> r.reads, out |-> SortedCoded(r), err |-> ""]
      [] r.op = "bamstats" -> [op |-> "bamstats", contigs |-> r.contigs, span |-> r.span, reads |-> r.reads, err |-> "",
                               total |-> Cardinality({i \in 1..Len(r.reads) : r.reads[i].tid >= 0 /\ ~r.reads[i].unm}),
                               table |-> SelectSeq([c \in 1..Len(r.contigs) |-> [c |-> c, len |-> r.contigs[c], mapped |-> MappedOn(r, c)]], LAMBDA x : x.mapped > 0),
                               rl2 |-> RlCoded(r)]
      [] r.op = "pool" -> LET res == [i \in 1..Len(r.xs) |-> r.a * r.xs[i] + r.b] IN
                          [op |-> "pool", nprocs |-> r.nprocs, xs |-> r.xs, a |-> r.a, b |-> r.b, kind |-> IF r.nprocs = 1 THEN "serial" ELSE "process",
                           maxw |-> IF r.nprocs > 1 THEN r.nprocs ELSE 0, cpu |-> r.nprocs < 1, sub |-> res, map |-> res, err |-> ""]
      [] r.op = "rm" -> [op |-> "rm", kind |-> r.kind, exists_after |-> r.kind = "dir", err |-> ""]
      [] r.op = "chunks" -> [op |-> "chunks", lines |-> r.lines, size |-> r.size, gz |-> r.gz, chunks |-> ChunkCoded(r), err |-> ""]
ALayerRec == IF inp.op = "batch" THEN BatchRec(inp.cfg, st) ELSE HelperRec(inp)

Judged(strict) == AFinal(st) =>
    LET rec == ALayerRec IN
    Premise(rec) => \A cl \in {x \in Clauses(rec.op) : Applies(x, rec)} :
                        Holds(cl, rec) \/ (~strict /\ \E t \in KnownTriggers : TriggerHolds(t, rec))
DesignOK == Judged(FALSE)               \* A |= P modulo the open findings (their triggers)
DesignStrict == Judged(TRUE)            \* fails exactly on the open findings (informational run)
NoSelfDrift == AFinal(st) => ~Drift(ALayerRec)            \* the machine's runs are consistent with the serial run / the ordering relation
(* facts of every state of the batch machine *)
SampleFilesOf(c) == UNION {BSetOf(SampleSteps(c, c.tumors[j])) : j \in 1..Len(c.tumors)}
RefBeforeSamples == inp.op = "batch" => LET c == inp.cfg IN
    (BSetOf(st.files) \cap SampleFilesOf(c) # {}) => (Reuse(c) \/ RefPath(c) \in BSetOf(st.files) \cup st.changed)
RefusalLeavesNothing == (inp.op = "batch" /\ st.pc = "error") => (st.files = <<>> /\ st.changed = {})
NoFileTwice == inp.op = "batch" => \A i, j \in 1..Len(st.files) : st.files[i] = st.files[j] => i = j
=============================================================================
