--------------------------- MODULE Pipeline ---------------------------
(* System-level model of a cnvkit session (property C10).                                    *)
(*                                                                                           *)
(* A session is a sequence of library calls on *shared* argument objects (arrays, lists,      *)
(* dicts owned by the caller), interleaved with arbitrary perturbations of the global random  *)
(* generators, with some calls fanned out over a process pool, and with output files written  *)
(* through ensure_path.  The model has one action per step the code takes:                    *)
(*                                                                                           *)
(*   Begin(c, procs)  the call starts (arguments are read, copy-before-modify)                *)
(*   Reseed           the stochastic kernels (fix.center_by_window, segmetrics bootstrap,     *)
(*                    GenomicArray.shuffle) install their fixed seed before drawing           *)
(*   Submit/WorkerPick/WorkerFinish/Gather   process-pool fan-out (ordered map)               *)
(*   Compute          the result is produced; it may read: the call, the argument contents,   *)
(*                    and -- for stochastic kernels -- the generator state *at this point*    *)
(*   PerturbRng(s)    anybody reseeds / draws from the global generators between calls        *)
(*   EnsurePath, WriteFile   rename-don't-overwrite, then write                               *)
(*                                                                                           *)
(* Results are uninterpreted terms  <<call, argument versions, generator-state-read, chunk     *)
(* order>>: two results are equal iff everything the computation read is equal.  Properties:  *)
(* Deterministic, ArgsUntouched, PoolOrder, NoOverwrite.                                      *)
EXTENDS PipelineOps

(* The menu of concrete calls is produced by the harness from its table of real callables:    *)
(* a sequence of records [op, par, args (sequence of object names), stochastic, parallel].    *)
(* (Menu, Calls, ObjNames are defined in PipelineOps) *)

CONSTANTS Procs,       \* worker counts offered to parallel calls, e.g. {1, 2, 3, 16}
          Seeds,       \* seeds PerturbRng may install
          KernelSeed,  \* the fixed seed of the stochastic kernels
          MaxEvents,   \* bound on high-level events per behaviour
          (* MaxWrites, PreExisting: declared in PipelineOps *)
          MaxChunks    \* chunks of a fanned-out call

VARIABLES ver,    \* [ObjNames -> Nat]: content version of each shared object (0 = as built)
          rng,    \* state of the global generators: Fresh or a seed (integers)
          pc,     \* "idle" | "reseed" | "pool" | "compute"
          cur,    \* the call in progress: [c, procs] or <<>>
          pool,   \* [chunk -> "pending" | "running" | "done"], gathered prefix length
          hist,   \* call -> first result term
          ok,     \* every repeated call reproduced its first result so far
          fs,     \* [suffix -> content id], 0 = absent; suffix 0 is the path itself, k is path.k
          nw,     \* writes so far
          path    \* history variable: the high-level events of this behaviour (what the replayer executes)
vars == <<ver, rng, pc, cur, pool, hist, ok, fs, nw, path>>

Fresh == -1      \* generator state before anybody touched it (all generator states are integers)
NotRead == -3

Init == /\ ver = [o \in ObjNames |-> 0]
        /\ rng = Fresh
        /\ pc = "idle" /\ cur = <<>>
        /\ pool = [st |-> <<>>, gathered |-> <<>>]
        /\ hist = <<>> /\ ok = TRUE
        /\ fs = [k \in Sfx |-> IF k \in PreExisting THEN 100 + k ELSE Absent]
        /\ nw = 0
        /\ path = <<>>

IsParallel(c, procs) == Menu[c].parallel /\ procs > 1

Begin(c, procs) ==
    /\ pc = "idle" /\ Len(path) < MaxEvents
    /\ procs \in (IF Menu[c].parallel THEN Procs ELSE {1})
    /\ cur' = [c |-> c, procs |-> procs]
    /\ pc' = IF Menu[c].stochastic THEN "reseed" ELSE IF IsParallel(c, procs) THEN "pool" ELSE "compute"
    /\ pool' = [st |-> [k \in 1..MaxChunks |-> "pending"], gathered |-> <<>>]
    /\ path' = Append(path, [ev |-> "call", c |-> c, procs |-> procs, seed |-> 0])
    /\ UNCHANGED <<ver, rng, hist, ok, fs, nw>>      \* ArgsUntouched: arguments are only read

Reseed ==
    /\ pc = "reseed"
    /\ rng' = KernelSeed
    /\ pc' = IF IsParallel(cur.c, cur.procs) THEN "pool" ELSE "compute"
    /\ UNCHANGED <<ver, cur, pool, hist, ok, fs, nw, path>>

(* ---- process pool: chunks are handed to free workers; completions arrive in any order;    *)
(*      the caller gathers results in submission order (pool.map / futures in list order)    *)
Running == {k \in 1..MaxChunks : pool.st[k] = "running"}
WorkerPick(k) ==
    /\ pc = "pool" /\ pool.st[k] = "pending"
    /\ Cardinality(Running) < cur.procs
    /\ \A j \in 1..k-1 : pool.st[j] # "pending"            \* the executor's work queue is FIFO
    /\ pool' = [pool EXCEPT !.st[k] = "running"]
    /\ UNCHANGED <<ver, rng, pc, cur, hist, ok, fs, nw, path>>
WorkerFinish(k) ==
    /\ pc = "pool" /\ pool.st[k] = "running"
    /\ pool' = [pool EXCEPT !.st[k] = "done"]
    /\ UNCHANGED <<ver, rng, pc, cur, hist, ok, fs, nw, path>>
Gather ==
    /\ pc = "pool"
    /\ LET nxt == Len(pool.gathered) + 1 IN
       /\ nxt <= MaxChunks /\ pool.st[nxt] = "done"        \* blocks on the next future in list order
       /\ pool' = [pool EXCEPT !.gathered = Append(@, nxt)]
    /\ pc' = IF Len(pool.gathered) + 1 = MaxChunks THEN "compute" ELSE "pool"
    /\ UNCHANGED <<ver, rng, cur, hist, ok, fs, nw, path>>

SerialOrder == [k \in 1..MaxChunks |-> k]
ResultTerm(c, procs) ==
    [c |-> c,
     args |-> [n \in 1..Len(Menu[c].args) |-> ver[Menu[c].args[n]]],
     rngread |-> IF Menu[c].stochastic THEN rng ELSE NotRead,
     order |-> IF IsParallel(c, procs) THEN pool.gathered ELSE SerialOrder]

Compute ==
    /\ pc = "compute"
    /\ LET res == ResultTerm(cur.c, cur.procs) IN
       /\ ok' = (ok /\ (cur.c \in DOMAIN hist => hist[cur.c] = res))
       /\ hist' = IF cur.c \in DOMAIN hist THEN hist ELSE hist @@ (cur.c :> res)
    /\ pc' = "idle" /\ cur' = <<>>
    /\ UNCHANGED <<ver, rng, pool, fs, nw, path>>

PerturbRng(s) ==
    /\ pc = "idle" /\ Len(path) < MaxEvents
    /\ rng' = s
    /\ path' = Append(path, [ev |-> "perturb", c |-> 0, procs |-> 0, seed |-> s])
    /\ UNCHANGED <<ver, pc, cur, pool, hist, ok, fs, nw>>

(* ---- core.ensure_path + the writer: rename an existing file to the first free numbered    *)
(*      suffix, then write the new content                                                    *)
FirstFree == CHOOSE k \in Sfx \ {0} : fs[k] = Absent /\ \A j \in 1..k-1 : fs[j] # Absent
(* EnsurePathStep, WriteStep: see PipelineOps *)
EnsureAndWrite ==
    /\ pc = "idle" /\ Len(path) < MaxEvents /\ nw < MaxWrites
    /\ nw' = nw + 1
    /\ fs' = WriteStep(EnsurePathStep(fs), nw + 1)            \* content id = ordinal of the write
    /\ path' = Append(path, [ev |-> "write", c |-> 0, procs |-> 0, seed |-> nw + 1])
    /\ UNCHANGED <<ver, rng, pc, cur, pool, hist, ok>>

Next == \/ \E c \in Calls, p \in Procs \cup {1} : Begin(c, p)
        \/ Reseed \/ Compute \/ Gather
        \/ \E k \in 1..MaxChunks : WorkerPick(k) \/ WorkerFinish(k)
        \/ \E s \in Seeds : PerturbRng(s)
        \/ EnsureAndWrite
Spec == Init /\ [][Next]_vars

(* ------------------------------------------------------------------ properties *)
Deterministic == ok                                             \* a result depends on the call and its arguments only
ArgsUntouched == [][ver' = ver]_vars
PoolOrder == (pc = "compute" /\ cur # <<>> /\ IsParallel(cur.c, cur.procs)) => pool.gathered = SerialOrder
Files == {k \in Sfx : fs[k] # Absent}
NoOverwrite == /\ Cardinality(Files) = nw + Cardinality(PreExisting)            \* k writes leave k more files
               /\ \A w \in 1..nw : \E k \in Sfx : fs[k] = w                \* every content written is still there
               /\ \A k \in PreExisting : \E j \in Sfx : fs[j] = 100 + k    \* pre-existing files are intact
               /\ (nw > 0 => fs[0] = nw)                                        \* the path holds the latest
=============================================================================
