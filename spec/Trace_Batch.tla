--------------------------- MODULE Trace_Batch ---------------------------
(* Trace validation for X08 (Batch): one recorded run of the real code per record (a whole `cnvkit.py batch` run with     *)
(* the file system before / after, or one call of a samutil / parallel helper); verdicts are carried as state (total     *)
(* verdicts) and read from the dump.  A clause counts as checked for a record only where it applies (Batch.Applies).    *)
EXTENDS Batch, Json, IOUtils
Trace == JsonDeserialize(IOEnv.TRACE_FILE)
VARIABLES i, ph, failed, scope, triggers, drift, checked
vars == <<i, ph, failed, scope, triggers, drift, checked>>
Init == /\ i \in 1..Len(Trace) /\ ph = "call"
        /\ failed = {} /\ scope = TRUE /\ triggers = {} /\ drift = FALSE /\ checked = {}
Next == /\ ph = "call" /\ ph' = "ret" /\ UNCHANGED i
        /\ LET r == Trace[i] IN
           /\ scope' = Premise(r)
           /\ checked' = IF scope' THEN {c \in Clauses(r.op) : Applies(c, r)} ELSE {}
           /\ failed' = {c \in checked' : ~Holds(c, r)}
           /\ triggers' = IF scope' THEN {t \in KnownTriggers : TriggerHolds(t, r)} ELSE {}
           /\ drift' = (scope' /\ failed' = {} /\ Drift(r))
Spec == Init /\ [][Next]_vars
NoFailure == failed = {}
=============================================================================
