--------------------------- MODULE MC_PlotData ---------------------------
(* Design check + enumerator for X05: every input of the small scope for the operations in Ops; one call -> ret *)
(* step; the invariant computes the A-layer result and checks the P-layer clauses on it (DesignOK, modulo the     *)
(* clauses explained by a known finding).  The dump of this run is replayed into the real cnvkit code.             *)
EXTENDS PlotData
CONSTANTS Ops,        \* operations enumerated in this run
          MaxCoord,   \* coordinates 0..MaxCoord
          NChrom,     \* chromosomes 1..NChrom
          MaxRows,    \* rows per table
          Wide        \* TRUE: the full menu of regions / gene options; FALSE: a short one (for the larger tables)

BOOL == {TRUE, FALSE}
Rows3 == {<<c, s, e>> : c \in 1..NChrom, s \in 0..MaxCoord, e \in 0..MaxCoord}
PosRows3 == {row \in Rows3 : S(row) < E(row)}
RECURSIVE Tabs(_)
Tabs(n) == IF n = 0 THEN {<<>>}
           ELSE LET prev == Tabs(n - 1) IN prev \cup {Append(t, row) : t \in {p \in prev : Len(p) = n - 1}, row \in PosRows3}
CoordTables == {t \in Tabs(MaxRows) : Sorted(t) /\ DisjointOnChrom(t)}          \* sorted, disjoint within a chromosome
Labels == {<<"A">>, <<"B">>, <<"-">>}
Decor(t, ls) == [k \in 1..Len(t) |-> <<t[k][1], t[k][2], t[k][3], ls[k], 4 * k>>]         \* log2 = k / 2
PlainBins(t) == Decor(t, [k \in 1..Len(t) |-> <<"G">>])
LabelTables == {Decor(t, ls) : t \in CoordTables, ls \in [1..MaxRows -> Labels]}
(* derived companions of a bin table *)
OneSegPerChrom(a) ==         \* one segment per chromosome from its first bin start to its last bin end
    LET cs == FirstApp(a) IN [n \in 1..Len(cs) |-> LET rows == OnChrom(a, cs[n]) IN
        <<cs[n], S(rows[1]), E(rows[Len(rows)]), <<"-">>, 8 * n, Len(rows)>>]
SegPerBin(a) == [k \in 1..Len(a) |-> <<C(a[k]), S(a[k]), E(a[k]), G(a[k]), X(a[k]), 1>>]
VarAtStarts(a) == [k \in 1..Len(a) |-> <<C(a[k]), S(a[k]), S(a[k]) + 1, 16 * (k % 4) + 8>>]
VarTables == {<<>>} \cup {<< <<1, p, p + 1, 24>> >> : p \in 0..MaxCoord}
                    \cup {<< <<1, p, p + 1, 24>>, <<1, q, q + 1, 40>> >> : p \in 0..MaxCoord, q \in 0..MaxCoord}

NoRegion == [rk |-> "none", rtext |-> FALSE, rc |-> 1, rhs |-> FALSE, rs |-> 0, rhe |-> FALSE, re |-> 0]
RegionsOn(c) ==
    {[NoRegion EXCEPT !.rk = "chrom", !.rc = c, !.rtext = tx] : tx \in BOOL}
    \cup {[rk |-> "range", rtext |-> TRUE, rc |-> c, rhs |-> TRUE, rs |-> s, rhe |-> TRUE, re |-> e] :
             s \in 0..MaxCoord, e \in 1..MaxCoord}
    \cup {[rk |-> "range", rtext |-> FALSE, rc |-> c, rhs |-> TRUE, rs |-> 0, rhe |-> TRUE, re |-> MaxCoord]}
    \cup {[rk |-> "range", rtext |-> tx, rc |-> c, rhs |-> FALSE, rs |-> 0, rhe |-> TRUE, re |-> e] : e \in 1..MaxCoord, tx \in BOOL}
    \cup {[rk |-> "range", rtext |-> tx, rc |-> c, rhs |-> TRUE, rs |-> s, rhe |-> FALSE, re |-> 0] : s \in 0..(MaxCoord - 1), tx \in BOOL}
    \cup {[rk |-> "range", rtext |-> TRUE, rc |-> c, rhs |-> FALSE, rs |-> 0, rhe |-> FALSE, re |-> 0]}
FullRegions == {NoRegion} \cup UNION {RegionsOn(c) : c \in 1..NChrom}
ShortRegions == {NoRegion, [NoRegion EXCEPT !.rk = "chrom", !.rtext = TRUE],
                 [rk |-> "range", rtext |-> TRUE, rc |-> 1, rhs |-> TRUE, rs |-> 1, rhe |-> TRUE, re |-> MaxCoord],
                 [rk |-> "range", rtext |-> TRUE, rc |-> NChrom, rhs |-> TRUE, rs |-> 0, rhe |-> FALSE, re |-> 0]}
Regions == {rg \in (IF Wide THEN FullRegions ELSE ShortRegions) : RegionOK(rg)}
GeneOpts == IF Wide THEN {<<FALSE, <<>>>>, <<TRUE, <<>>>>, <<TRUE, <<"", "">>>>, <<TRUE, <<"A">>>>, <<TRUE, <<"A", "B">>>>, <<TRUE, <<"Z">>>>}
            ELSE {<<FALSE, <<>>>>, <<TRUE, <<"A">>>>, <<TRUE, <<"B", "A">>>>}
Alphabet == {99, 49, 48, 58, 45, 32, 46}          \* c 1 0 : - blank .
RECURSIVE Texts(_)
Texts(n) == IF n = 0 THEN {<<>>} ELSE LET prev == Texts(n - 1) IN prev \cup {Append(t, ch) : t \in {p \in prev : Len(p) = n - 1}, ch \in Alphabet}
SmallSeqs(n, vals) == UNION {[1..m -> vals] : m \in 0..n}
PermSizes == {sz \in SmallSeqs(3, (1..3) \X (0..2)) : \A j, k \in 1..Len(sz) : j # k => sz[j][1] # sz[k][1]}

Inputs(op) ==
    CASE op = "from_label" -> {[op |-> op, text |-> t, keep |-> kp] : t \in Texts(4), kp \in BOOL}
      [] op = "unpack_range" ->
            {[op |-> op, kind |-> "text", text |-> t, tc |-> <<>>, ts |-> 0, te |-> 0] : t \in Texts(4) \ {<<>>}}
            \cup {[op |-> op, kind |-> kd, text |-> <<>>, tc |-> <<99, 49>>, ts |-> 2, te |-> 5] :
                     kd \in {"none", "empty_str", "tuple3", "tuple4", "list3", "tuple2", "int"}}
      [] op = "roundtrip" -> {[op |-> op, chrom |-> ch, s |-> s, e |-> e] :
                                 ch \in {<<99>>, <<99, 46, 49>>, <<49>>, <<99, 45>>}, s \in 0..3, e \in 0..3}
      [] op = "chrom_sizes" -> {[op |-> op, a |-> PlainBins(t), mb |-> mb] : t \in Tabs(MaxRows), mb \in BOOL}
      [] op = "dividers" -> {[op |-> op, sizes |-> sz, hp |-> pd[1], pad |-> pd[2], along |-> al] :
                                sz \in PermSizes, pd \in {<<FALSE, 0>>, <<TRUE, 0>>, <<TRUE, 1>>}, al \in {"x", "y", "z"}}
      [] op = "region_to_bins" -> {[op |-> op, a |-> PlainBins(t)] @@ rg : t \in CoordTables, rg \in Regions}
      [] op = "binwise" -> {[op |-> op, a |-> PlainBins(t), hsg |-> sgo # "none",
                             sg |-> CASE sgo = "none" -> <<>> [] sgo = "one" -> OneSegPerChrom(PlainBins(t)) [] OTHER -> SegPerBin(PlainBins(t)),
                             hv |-> hv, va |-> va] :
                               t \in CoordTables, sgo \in {"none", "one", "each"}, hv \in BOOL, va \in VarTables}
      [] op = "simple" -> {[op |-> op, kind |-> "bins", t |-> PlainBins(t)] : t \in CoordTables}
                          \cup {[op |-> op, kind |-> "segs", t |-> [k \in 1..Len(t) |-> <<t[k][1], t[k][2], t[k][3], <<"G">>, 0, pr[k]>>]] :
                                   t \in CoordTables, pr \in [1..MaxRows -> 0..2]}
      [] op = "segs_to_bins" -> {[op |-> op, a |-> PlainBins(t), hp |-> hp,
                                  sg |-> IF one THEN OneSegPerChrom(PlainBins(t)) ELSE SegPerBin(PlainBins(t))] :
                                    t \in CoordTables, hp \in BOOL, one \in BOOL}
      [] op = "repeat_slices" -> {[op |-> op, vals |-> v] : v \in SmallSeqs(5, 0..2)}
      [] op = "genes_by_name" -> {[op |-> op, a |-> a, names |-> nm] : a \in LabelTables,
                                     nm \in {<<>>, <<"A">>, <<"A", "B">>, <<"Z">>, <<"A", "">>, <<"-", "A">>}}
      [] op = "genes_by_range" -> {[op |-> op, a |-> a, c |-> rg.rc, hs |-> rg.rhs, s |-> rg.rs, he |-> rg.rhe, e |-> rg.re] :
                                      a \in LabelTables, rg \in {x \in Regions : x.rk = "range"}}
      [] op = "select" -> {[op |-> op, hb |-> TRUE, a |-> a, hsg |-> TRUE, sg |-> OneSegPerChrom(a), hv |-> TRUE, va |-> VarAtStarts(a),
                            hg |-> go[1], names |-> go[2], w |-> md[1], bybin |-> md[2]] @@ rg :
                              a \in LabelTables, rg \in Regions, go \in GeneOpts, md \in {<<0, FALSE>>, <<1, FALSE>>, <<0, TRUE>>}}
      [] op = "seg_color" -> {[op |-> op, ck |-> ck, pref |-> pf, hcn |-> hcn, cn |-> cn, hal |-> hal, cn1 |-> al[1], cn2 |-> al[2],
                               bright |-> br] : ck \in 1..3, pf \in BOOL, hcn \in BOOL, cn \in 0..3, hal \in BOOL,
                                                al \in {<<1, 1>>, <<2, 0>>}, br \in BOOL}
      [] op = "seg_vafs" -> {[op |-> op, va |-> [k \in 1..Len(ps) |-> <<1, ps[k][1], ps[k][1] + 1, ps[k][2]>>], hsg |-> sg # <<>>, sg |-> sg] :
                                ps \in {q \in SmallSeqs(3, (0..2) \X {16, 32, 48, 56}) : \A k \in 1..(Len(q) - 1) : q[k][1] <= q[k + 1][1]},
                                sg \in {<<>>, << <<1, 0, 2, <<"-">>, 0, 2>>, <<1, 2, 3, <<"-">>, 8, 1>> >>}}
      [] op = "genome_layout" -> {[op |-> op, hb |-> TRUE, a |-> PlainBins(t), hsg |-> hs, sg |-> IF hs THEN OneSegPerChrom(PlainBins(t)) ELSE <<>>] :
                                     t \in CoordTables \ {<<>>}, hs \in BOOL}
      [] op = "diagram" -> {[op |-> op, hb |-> FALSE, a |-> <<>>, hsg |-> TRUE,
                             sg |-> [k \in 1..Len(a) |-> <<C(a[k]), S(a[k]), E(a[k]), G(a[k]), 8 * (k - 1), 2 * k - 1>>],
                             thr8 |-> 4, minp |-> mp, labels |-> lb, km |-> <<>>, sq |-> <<>>] @@ rg :
                               a \in LabelTables, mp \in {1, 3}, lb \in BOOL, rg \in ShortRegions}
      [] op = "heatmap" -> {[op |-> op, samples |-> << <<FALSE, PlainBins(t1)>>, <<sk, IF sk THEN SegPerBin(PlainBins(t2)) ELSE PlainBins(t2)>> >>,
                             bybin |-> bb, vertical |-> FALSE] @@ rg :
                               t1 \in CoordTables \ {<<>>}, t2 \in CoordTables \ {<<>>}, sk \in BOOL, bb \in BOOL, rg \in ShortRegions}
      [] OTHER -> {}

VARIABLES inp, ph
vars == <<inp, ph>>
Init == /\ inp \in UNION {Inputs(op) : op \in Ops} /\ ph = "call"
Next == ph = "call" /\ ph' = "ret" /\ UNCHANGED inp
Spec == Init /\ [][Next]_vars

(* the record the design check judges: the input fields plus the A-layer's output fields *)
PickErr(es) == IF "" \in es THEN "" ELSE CHOOSE e \in es : TRUE
DesignRec(x) ==
    CASE x.op = "genes_by_name" -> LET o == GenesByNameA(x) IN
            [err |-> PickErr(o.errs), res |-> LET q == SetToSeq(o.entries) IN [k \in 1..Len(q) |-> <<q[k][1], q[k][2], q[k][3], SetToSeq(q[k][4])>>]] @@ x
      [] x.op = "select" -> LET o == SelectA(x)  q == SetToSeq(o.geneset) IN
            [err |-> PickErr(o.errs), genes |-> [k \in 1..Len(q) |-> <<q[k][1], q[k][2], SetToSeq(q[k][3])>>]]
            @@ [f \in SelFields |-> o[f]] @@ x
      [] OTHER -> PdALayer(x) @@ x
DesignOps == PdOps \ {"heatmap", "cvg2rgb"}       \* the heatmap cell matrix and the desaturated colours are not modelled
DesignOK == (ph = "ret" /\ inp.op \in DesignOps) =>
    LET r == DesignRec(inp) IN PdPremise(r) => \A c \in PdClauses(inp.op) : PdHolds(c, r) \/ Explained(c, r)
(* the same without the allowance for known findings: violated exactly where the code (as modelled) breaks a documented clause *)
DesignStrict == (ph = "ret" /\ inp.op \in DesignOps) =>
    LET r == DesignRec(inp) IN PdPremise(r) => \A c \in PdClauses(inp.op) : PdHolds(c, r)
=============================================================================
