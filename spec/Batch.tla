--------------------------- MODULE Batch ---------------------------
(* X08 (extension) -- the batch pipeline as a state machine over an abstract file system, the BAM helpers and the     *)
(* process-pool helpers: cnvlib/batch.py (batch_make_reference, batch_write_coverage, batch_run_sample), the `batch`  *)
(* wrapper _cmd_batch of cnvlib/commands.py, cnvlib/samutil.py (ensure_bam_index, is_newer_than, ensure_bam_sorted,   *)
(* idxstats, bam_total_reads, get_read_length) and cnvlib/parallel.py (pick_pool, SerialPool, rm, to_chunks).          *)
(*                                                                                                                   *)
(* There is no listed property.  P-layer = only what the package documents (doc/pipeline.rst section batch,           *)
(* doc/quickstart.rst, doc/nonhybrid.rst, `cnvkit.py batch -h`, docstrings, error messages); every clause quotes its   *)
(* source.  A-layer = the code case for case: for batch a state machine (AInit / ASucc, one action per phase or loop   *)
(* iteration) whose state holds the files created so far, in order; a run of the real command is judged by the         *)
(* P-layer, and compared with the A-layer's run (MODEL-DRIFT).  Variable-free: MC_Batch explores the machine,          *)
(* Trace_Batch judges recorded runs.                                                                                 *)
(*                                                                                                                   *)
(* A file is [d, n]: directory ("" = the working directory) and the dot-separated components of its base name          *)
(* (<<"T1", "targetcoverage", "cnn">>); absent = <<>> components.  A file's content is an id: equal ids == equal bytes. *)
(*                                                                                                                   *)
(* Records:                                                                                                          *)
(*  op = "batch"   one run of `cnvkit.py batch` in a fresh directory:                                                 *)
(*     cfg     [method, tgt, anti, acc, fasta, annot, ref, outref (files), short, tavg, aavg, amin, has_n, normals,    *)
(*              tumors (file sequences), outdir, scatter, diagram, procs, segm, yflag, count, droplow, cluster,        *)
(*              prior_ref (a file already sits at the path of the new reference)]                                     *)
(*     err     <<exception type, message>> (<<"", "">> = completed)                                                   *)
(*     created <<[f (file), id, rows, rank]>> names that did not exist before, rank = dense rank of the               *)
(*             modification time; changed: the same for old names with new bytes; gone: <<file>>                      *)
(*     step    <<[f, id]>>: content id of the file the DOCUMENTED SINGLE STEP produces for the batch file f            *)
(*     fresh   <<[f, id]>>: for a reused reference, the outputs of the earlier complete run that built it             *)
(*     prior   <<[f, id]>>: the file that sat at the reference path before the run                                    *)
(*     tgt_min_run  structure of the target bed written by the run: the shortest run of consecutive equally named rows    *)
(*  op = "index" / "sorted" / "bamstats" / "pool" / "rm" / "chunks": see the sections below.                          *)
EXTENDS Naturals, Integers, Sequences, FiniteSets, TLC
X04 == INSTANCE CliOps          \* core.fbase and string joining, specified by X04

BSetOf(s) == {s[i] : i \in 1..Len(s)}
BLast(s) == s[Len(s)]
BFront(s) == SubSeq(s, 1, Len(s) - 1)
NoErr(r) == r.err = ""                                         \* the unit operations record the exception type
BMin(S) == CHOOSE x \in S : \A y \in S : x <= y

(* ================================================================================ files and names ================ *)
NoFile == [d |-> "", n |-> <<>>]
Absent(f) == f.n = <<>>
F(d, n) == [d |-> d, n |-> n]
BaseName(f) == X04!JoinDots(f.n)
PathOf(f) == IF f.d = "" THEN BaseName(f) ELSE f.d \o "/" \o BaseName(f)      \* as spelled on the command line
StemOf(f) == IF Len(f.n) = 1 THEN f.n ELSE BFront(f.n)                         \* os.path.splitext(os.path.basename(.))[0]
SidOf(f) == X04!FBase(f.n)                                                     \* core.fbase: the sample id (components)
SidStr(f) == X04!JoinDots(SidOf(f))
WithTail(sid, tail) == BFront(sid) \o <<BLast(sid) \o tail>>                   \* "<sample>-scatter"

CovT == <<"targetcoverage", "cnn">>
CovA == <<"antitargetcoverage", "cnn">>
SampleSufs == <<CovT, CovA, <<"cnr">>, <<"cns">>, <<"call", "cns">>, <<"bintest", "cns">> >>
OutDir(c) == c.outdir                                                          \* "" = "." (the default)
InOut(c, n) == F(OutDir(c), n)
SampleFile(c, s, suf) == InOut(c, SidOf(s) \o suf)
ScatterPdf(c, s) == InOut(c, WithTail(SidOf(s), "-scatter") \o <<"pdf">>)
ScatterPng(c, s) == InOut(c, WithTail(SidOf(s), "-scatter") \o <<"png">>)
DiagramPdf(c, s) == InOut(c, WithTail(SidOf(s), "-diagram") \o <<"pdf">>)
RefPath(c) == IF Absent(c.outref) THEN InOut(c, <<"reference", "cnn">>) ELSE c.outref
Reuse(c) == ~Absent(c.ref)
Samples(c) == c.tumors \o (IF Reuse(c) THEN <<>> ELSE c.normals)

(* ================================================================================ documented refusals ============ *)
SeeHelp == "\n(See: cnvkit.py batch -h)"
(* _cmd_batch: "If -r/--reference is given, options to construct a new reference (%s) should not be used."            *)
NewRefFlags(c) ==
    LET all == << <<c.has_n, "-n/--normal">>, <<~Absent(c.fasta), "-f/--fasta">>, <<~Absent(c.tgt), "-t/--targets">>,
                  <<~Absent(c.anti), "-a/--antitargets">>, <<~Absent(c.acc), "-g/--access">>, <<~Absent(c.annot), "--annotate">>,
                  <<c.short, "--short-names">>, <<c.tavg # 0, "--target-avg-size">>, <<c.aavg # 0, "--antitarget-avg-size">>,
                  <<c.amin # 0, "--antitarget-min-size">> >>
        used == SelectSeq(all, LAMBDA p : p[1])
    IN [i \in 1..Len(used) |-> used[i][2]]
MsgRefWithNew(c) == "If -r/--reference is given, options to construct a new reference (" \o X04!JoinWith(NewRefFlags(c), ", ")
                    \o ") should not be used." \o SeeHelp
(* "Option -n/--normal must be given to build a new reference if -r/--reference is not used."                         *)
MsgNeedNormal == "Option -n/--normal must be given to build a new reference if -r/--reference is not used." \o SeeHelp
(* "For the '%r' sequencing method, option -t/--targets (at least) must be given to build a new reference if           *)
(* -r/--reference is not used."  (%r inside quotes: the method appears doubly quoted; the text is taken as it is)      *)
MsgNeedTargets(c) == "For the ''" \o c.method \o "'' sequencing method, option -t/--targets (at least) must be given to build a new "
                     \o "reference if -r/--reference is not used." \o SeeHelp
(* "Duplicate sample ID {sid!r} (from {fname} and {seen_sids[sid]})" -- "Ensure sample IDs are unique to avoid         *)
(* overwriting outputs"                                                                                              *)
AllBams(c) == c.tumors \o c.normals
DupPairs(c) == {<<i, j>> \in (1..Len(AllBams(c))) \X (1..Len(AllBams(c))) : i < j /\ SidOf(AllBams(c)[i]) = SidOf(AllBams(c)[j])}
MsgDup(c, i, j) == "Duplicate sample ID '" \o SidStr(AllBams(c)[j]) \o "' (from " \o PathOf(AllBams(c)[j]) \o " and "
                   \o PathOf(AllBams(c)[i]) \o ")"
ExitMsgs(c) ==      \* the documented refusals of the command wrapper whose condition holds
    (IF Reuse(c) /\ Len(NewRefFlags(c)) > 0 THEN {MsgRefWithNew(c)} ELSE {})
    \cup (IF ~Reuse(c) /\ ~c.has_n THEN {MsgNeedNormal} ELSE {})
    \cup (IF ~Reuse(c) /\ c.has_n /\ c.method \in {"hybrid", "amplicon"} /\ Absent(c.tgt) THEN {MsgNeedTargets(c)} ELSE {})
    \cup {MsgDup(c, p[1], p[2]) : p \in DupPairs(c)}
(* batch_make_reference: "{method!r} protocol: antitargets should not be given/specified." /                          *)
(* "{method!r} protocol: targets and access should not be different." / "WGS protocol: need to provide --targets,      *)
(* --access, or --fasta options."                                                                                    *)
NonHybrid(c) == c.method \in {"wgs", "amplicon"}
MsgNoAnti(c) == "'" \o c.method \o "' protocol: antitargets should not be given/specified."
MsgAccTgt(c) == "'" \o c.method \o "' protocol: targets and access should not be different."
MsgWgsNeeds == "WGS protocol: need to provide --targets, --access, or --fasta options."
AntiGivenNonHybrid(c) == ~Reuse(c) /\ NonHybrid(c) /\ ~Absent(c.anti)
AccDiffers(c) == ~Reuse(c) /\ NonHybrid(c) /\ ~Absent(c.acc) /\ ~Absent(c.tgt) /\ PathOf(c.acc) # PathOf(c.tgt)
WgsNothing(c) == ~Reuse(c) /\ c.method = "wgs" /\ Absent(c.tgt) /\ Absent(c.acc) /\ Absent(c.fasta)
ValueMsgs(c) == (IF AntiGivenNonHybrid(c) THEN {MsgNoAnti(c)} ELSE {}) \cup (IF AccDiffers(c) THEN {MsgAccTgt(c)} ELSE {})
                \cup (IF WgsNothing(c) THEN {MsgWgsNeeds} ELSE {})
Refused(c) == ExitMsgs(c) # {} \/ ValueMsgs(c) # {}

(* ================================================================================ A-layer: the state machine ===== *)
(* st = [pc, k, src (the file the target bed is derived from), tb, ab (target / antitarget bed in use), files (created, *)
(*       in order), changed (old names rewritten), done (set of finished task ids), err]                              *)
AInit == [pc |-> "validate", k |-> 1, src |-> NoFile, tb |-> NoFile, ab |-> NoFile, files |-> <<>>, changed |-> {},
          done |-> {}, err |-> <<"", "">>]
AFail(st, type, msg) == [st EXCEPT !.pc = "error", !.err = <<type, msg>>]
AWrite(st, f) == [st EXCEPT !.files = Append(@, f)]

(* _cmd_batch, the option validation (if / elif chain) *)
AValidate(c, st) ==
    IF Reuse(c) THEN (IF Len(NewRefFlags(c)) > 0 THEN AFail(st, "SystemExit", MsgRefWithNew(c)) ELSE [st EXCEPT !.pc = "dups"])
    ELSE IF ~c.has_n THEN AFail(st, "SystemExit", MsgNeedNormal)
    ELSE IF c.method \in {"hybrid", "amplicon"} /\ Absent(c.tgt) THEN AFail(st, "SystemExit", MsgNeedTargets(c))
    ELSE [st EXCEPT !.pc = "dups"]
(* one iteration of `for fname in bam_files + normal: sid = fbase(fname); if sid in seen_sids: sys.exit(...)` *)
ADupIter(c, st) ==
    LET names == AllBams(c) IN
    IF st.k > Len(names) THEN [st EXCEPT !.pc = IF Reuse(c) THEN "reuse" ELSE "ref.check", !.k = 1]
    ELSE LET earlier == {i \in 1..(st.k - 1) : SidOf(names[i]) = SidOf(names[st.k])} IN
         IF earlier # {} THEN AFail(st, "SystemExit", MsgDup(c, BMin(earlier), st.k))     \* seen_sids keeps the first file of an id
         ELSE [st EXCEPT !.k = @ + 1]
(* batch_make_reference, the protocol checks: antitargets first, then access vs targets *)
ARefCheck(c, st) ==
    IF NonHybrid(c) /\ ~Absent(c.anti) THEN AFail(st, "ValueError", MsgNoAnti(c))      \* (f-string since 61facc8)
    ELSE IF AccDiffers(c) THEN AFail(st, "ValueError", MsgAccTgt(c))
    ELSE [st EXCEPT !.pc = IF c.method = "wgs" THEN "ref.wgs" ELSE "ref.target", !.src = c.tgt]
(* method wgs: targets <- targets | access | access computed from the FASTA and written to <fasta base>.bed in the      *)
(* WORKING directory ("Take filename base from FASTA, lacking any other clue").  autobin creates no file.              *)
ARefWgs(c, st) ==
    IF ~Absent(c.tgt) THEN [st EXCEPT !.pc = "ref.target"]
    ELSE IF ~Absent(c.acc) THEN [st EXCEPT !.pc = "ref.target", !.src = c.acc]
    ELSE IF ~Absent(c.fasta) THEN LET bed == F("", StemOf(c.fasta) \o <<"bed">>) IN
                                  [AWrite(st, bed) EXCEPT !.pc = "ref.target", !.src = bed]
    ELSE AFail(st, "ValueError", MsgWgsNeeds)
(* "Pre-process baits/targets": <output_dir>/<base of the targets file>.target.bed *)
ARefTarget(c, st) ==
    LET tb == InOut(c, StemOf(st.src) \o <<"target", "bed">>) IN [AWrite(st, tb) EXCEPT !.pc = "ref.anti", !.tb = tb]
(* "Devise a temporary antitarget filename": <base>.antitarget.bed unless antitargets were given *)
ARefAnti(c, st) ==
    LET nxt == IF Len(c.normals) = 0 THEN "ref.build" ELSE "ref.normals" IN
    IF ~Absent(c.anti) THEN [st EXCEPT !.pc = nxt, !.ab = c.anti]
    ELSE LET ab == InOut(c, StemOf(st.src) \o <<"antitarget", "bed">>) IN [AWrite(st, ab) EXCEPT !.pc = nxt, !.ab = ab]
(* "Run coverage on all normals": task 2j-1 = target coverage of normal j, task 2j = its antitarget coverage;          *)
(* submitted in this order; a SerialPool (processes = 1) runs them in order, a process pool in any order               *)
NormalTasks(c) == 1..(2 * Len(c.normals))
TaskFile(c, t) == SampleFile(c, c.normals[(t + 1) \div 2], IF t % 2 = 1 THEN CovT ELSE CovA)
ANormalTask(c, st, t) ==
    LET s1 == [AWrite(st, TaskFile(c, t)) EXCEPT !.done = @ \cup {t}] IN
    IF s1.done = NormalTasks(c) THEN [s1 EXCEPT !.pc = "ref.build", !.done = {}] ELSE s1
(* do_reference / do_reference_flat, then core.ensure_path + tabio.write: reading the FASTA leaves <fasta>.fai; a file   *)
(* already at the reference path is renamed <path>.1 first                                                            *)
ARefBuild(c, st) ==
    LET s1 == IF Absent(c.fasta) THEN st ELSE AWrite(st, F(c.fasta.d, c.fasta.n \o <<"fai">>))
        rp == RefPath(c)
        s2 == IF c.prior_ref THEN [AWrite(s1, F(rp.d, rp.n \o <<"1">>)) EXCEPT !.changed = @ \cup {rp}] ELSE AWrite(s1, rp)
    IN [s2 EXCEPT !.pc = IF Len(c.tumors) = 0 THEN "done" ELSE "samples"]
(* reused reference: "Extract (anti)target BEDs from the given, existing CN reference" into                            *)
(* <output_dir>/<fbase(reference)>.target-tmp.bed / .antitarget-tmp.bed                                               *)
AReuse(c, st) ==
    LET tb == InOut(c, SidOf(c.ref) \o <<"target-tmp", "bed">>)
        ab == InOut(c, SidOf(c.ref) \o <<"antitarget-tmp", "bed">>)
    IN [AWrite(AWrite(st, tb), ab) EXCEPT !.pc = IF Len(c.tumors) = 0 THEN "done" ELSE "samples", !.tb = tb, !.ab = ab]
       \* no samples: only the log line "No tumor/test samples (but %d normal/control samples)" (len(args.normal or []) since 45f76bb)
(* batch_run_sample: the files of one sample in the order they are written *)
SampleSteps(c, s) ==
    [i \in 1..6 |-> SampleFile(c, s, SampleSufs[i])]
    \o (IF c.scatter THEN <<ScatterPng(c, s)>> ELSE <<>>) \o (IF c.diagram THEN <<DiagramPdf(c, s)>> ELSE <<>>)
SampleProgress(c, st, j) == Cardinality({t \in st.done : t[1] = j})
ASampleStep(c, st, j) ==
    LET steps == SampleSteps(c, c.tumors[j])
        n == SampleProgress(c, st, j) + 1
        s1 == [AWrite(st, steps[n]) EXCEPT !.done = @ \cup {<<j, n>>}]
    IN IF \A i \in 1..Len(c.tumors) : SampleProgress(c, s1, i) = Len(SampleSteps(c, c.tumors[i])) THEN [s1 EXCEPT !.pc = "done"] ELSE s1
Unfinished(c, st) == {j \in 1..Len(c.tumors) : SampleProgress(c, st, j) < Len(SampleSteps(c, c.tumors[j]))}

(* the successors of a state.  pick_pool(1) is a SerialPool ("Just call the function on the arguments"): tasks run in    *)
(* submission order; otherwise the tasks of the pool interleave freely.                                               *)
ASucc(c, st) ==
    CASE st.pc = "validate" -> {AValidate(c, st)}
      [] st.pc = "dups" -> {ADupIter(c, st)}
      [] st.pc = "ref.check" -> {ARefCheck(c, st)}
      [] st.pc = "ref.wgs" -> {ARefWgs(c, st)}
      [] st.pc = "ref.target" -> {ARefTarget(c, st)}
      [] st.pc = "ref.anti" -> {ARefAnti(c, st)}
      [] st.pc = "ref.normals" -> LET todo == NormalTasks(c) \ st.done IN
                                   {ANormalTask(c, st, t) : t \in IF c.procs = 1 THEN {BMin(todo)} ELSE todo}
      [] st.pc = "ref.build" -> {ARefBuild(c, st)}
      [] st.pc = "reuse" -> {AReuse(c, st)}
      [] st.pc = "samples" -> LET todo == Unfinished(c, st) IN
                               {ASampleStep(c, st, j) : j \in IF c.procs = 1 THEN {BMin(todo)} ELSE todo}
      [] OTHER -> {}
AFinal(st) == st.pc \in {"done", "error"}
(* the serial run (the lowest enabled task first) *)
ASeqNext(c, st) ==
    CASE st.pc = "ref.normals" -> ANormalTask(c, st, BMin(NormalTasks(c) \ st.done))
      [] st.pc = "samples" -> ASampleStep(c, st, BMin(Unfinished(c, st)))
      [] OTHER -> CHOOSE s \in ASucc(c, st) : TRUE
RECURSIVE ARunFrom(_, _)
ARunFrom(c, st) == IF AFinal(st) THEN st ELSE ARunFrom(c, ASeqNext(c, st))
ARun(c) == ARunFrom(c, AInit)
(* what must precede what, whatever the pool: <<earlier file, later file>> *)
RECURSIVE ChainPairs(_)
ChainPairs(s) == IF Len(s) < 2 THEN {} ELSE {<<s[1], s[2]>>} \cup ChainPairs(Tail(s))
ABefore(c) ==
    LET a == ARun(c) IN
    IF c.procs = 1 THEN ChainPairs(a.files)
    ELSE LET covs == {SampleFile(c, c.normals[j], suf) : j \in 1..Len(c.normals), suf \in {CovT, CovA}}
             isCov(f) == ~Reuse(c) /\ f \in covs
             isSample(f) == \E j \in 1..Len(c.tumors) : f \in BSetOf(SampleSteps(c, c.tumors[j]))
             head == SelectSeq(a.files, LAMBDA f : ~isCov(f) /\ ~isSample(f))        \* bed files, (fai,) reference: in order
             beds == {f \in BSetOf(head) : f = a.tb \/ f = a.ab}
             refs == {f \in BSetOf(head) : f \notin beds /\ f # a.src}
         IN ChainPairs(head)
            \cup {<<b, x>> : b \in beds, x \in {f \in BSetOf(a.files) : isCov(f)}}
            \cup {<<x, y>> : x \in {f \in BSetOf(a.files) : isCov(f)}, y \in refs}
            \cup {<<y, z>> : y \in BSetOf(head), z \in {f \in BSetOf(a.files) : isSample(f)}}
            \cup UNION {ChainPairs(SampleSteps(c, c.tumors[j])) : j \in 1..Len(c.tumors)}

(* ================================================================================ reading a batch record ========== *)
Created(r) == {r.created[i].f : i \in 1..Len(r.created)}
Changed(r) == {r.changed[i].f : i \in 1..Len(r.changed)}
Present(r) == Created(r) \cup Changed(r)                      \* written by the run
Entry(r, f) == LET S == {i \in 1..Len(r.created) : r.created[i].f = f}
                   T == {i \in 1..Len(r.changed) : r.changed[i].f = f}
               IN IF S # {} THEN r.created[BMin(S)] ELSE r.changed[BMin(T)]
IdOf(r, f) == Entry(r, f).id
RowsOf(r, f) == Entry(r, f).rows
HasIn(tab, f) == \E i \in 1..Len(tab) : tab[i].f = f
IdIn(tab, f) == tab[BMin({i \in 1..Len(tab) : tab[i].f = f})].id
SameAsStep(r, f) == f \in Present(r) /\ HasIn(r.step, f) /\ IdIn(r.step, f) = IdOf(r, f)
Ok(r) == r.err = <<"", "">>
Quiet(r) == r.created = <<>> /\ r.changed = <<>> /\ r.gone = <<>>          \* the run left the directory as it was
Ext(f) == BLast(f.n)

(* ================================================================================ P-layer: batch ================= *)
BatchClauses == {"bad_options_refused", "protocol_refusals", "antitarget_refusal_names_protocol", "completes_when_options_valid",
                 "sample_outputs", "scatter_output_pdf", "diagram_output_pdf", "plots_only_if_asked", "reference_output_path",
                 "normal_coverages_written", "reference_equals_stepwise", "targets_equal_target_cmd", "nonhybrid_no_antitargets",
                 "coverage_equals_coverage_cmd", "sample_equals_stepwise", "reuse_skips_reference_building", "reuse_equals_fresh",
                 "no_analysis_without_tumors", "existing_reference_kept"}
BatchApplies(cl, r) ==
    LET c == r.cfg IN
    CASE cl = "bad_options_refused" -> ExitMsgs(c) # {}
      [] cl = "protocol_refusals" -> ExitMsgs(c) = {} /\ ValueMsgs(c) # {} /\ ~AntiGivenNonHybrid(c)
      [] cl = "antitarget_refusal_names_protocol" -> ExitMsgs(c) = {} /\ AntiGivenNonHybrid(c)
      [] cl = "completes_when_options_valid" -> ~Refused(c)
      [] cl \in {"sample_outputs", "sample_equals_stepwise"} -> Ok(r) /\ Len(c.tumors) > 0
      [] cl = "scatter_output_pdf" -> Ok(r) /\ c.scatter /\ Len(c.tumors) > 0
      [] cl = "diagram_output_pdf" -> Ok(r) /\ c.diagram /\ Len(c.tumors) > 0
      [] cl = "plots_only_if_asked" -> Ok(r) /\ ~c.scatter /\ ~c.diagram
      [] cl \in {"reference_output_path", "reference_equals_stepwise"} -> Ok(r) /\ ~Reuse(c)
      [] cl = "normal_coverages_written" -> Ok(r) /\ ~Reuse(c) /\ Len(c.normals) > 0
      [] cl = "targets_equal_target_cmd" -> Ok(r) /\ ~Reuse(c) /\ c.method = "amplicon"
      [] cl = "nonhybrid_no_antitargets" -> Ok(r) /\ ~Reuse(c) /\ NonHybrid(c)
      [] cl = "coverage_equals_coverage_cmd" -> Ok(r) /\ Len(Samples(c)) > 0
      [] cl \in {"reuse_skips_reference_building", "reuse_equals_fresh"} -> Ok(r) /\ Reuse(c)
      [] cl = "no_analysis_without_tumors" -> Ok(r) /\ Len(c.tumors) = 0
      [] cl = "existing_reference_kept" -> Ok(r) /\ ~Reuse(c) /\ Len(r.prior) > 0
      [] OTHER -> FALSE
BatchHolds(cl, r) ==
    LET c == r.cfg IN
    CASE
    (* the messages of _cmd_batch ARE the documentation of these refusals; "(See: cnvkit.py batch -h)".  When several     *)
    (* conditions hold, any of their messages is admitted.  A refused run has done nothing.                               *)
         cl = "bad_options_refused" -> r.err[1] = "SystemExit" /\ r.err[2] \in ExitMsgs(c) /\ Quiet(r)
    (* batch_make_reference: "'<method>' protocol: targets and access should not be different." / "WGS protocol: need to    *)
    (* provide --targets, --access, or --fasta options."                                                                 *)
      [] cl = "protocol_refusals" -> r.err[1] = "ValueError" /\ r.err[2] \in ValueMsgs(c) /\ Quiet(r)
    (* the same for "... protocol: antitargets should not be given/specified.": the message names the protocol, as its       *)
    (* sibling does (nonhybrid.rst: "No 'antitarget' regions are used")                                                   *)
      [] cl = "antitarget_refusal_names_protocol" -> r.err[1] = "ValueError" /\ r.err[2] \in ValueMsgs(c) /\ Quiet(r)
    (* pipeline.rst / quickstart.rst give these option combinations as working command lines                               *)
      [] cl = "completes_when_options_valid" -> Ok(r)
    (* pipeline.rst, "The pipeline executed by the batch command is equivalent to": for each sample                        *)
    (* Sample.targetcoverage.cnn, Sample.antitargetcoverage.cnn, Sample.cnr, Sample.cns, Sample.call.cns, Sample.bintest.cns; *)
    (* -d: "Output directory."                                                                                           *)
      [] cl = "sample_outputs" -> \A j \in 1..Len(c.tumors) : \A k \in 1..6 : SampleFile(c, c.tumors[j], SampleSufs[k]) \in Present(r)
    (* batch -h: "--scatter  Create a whole-genome copy ratio profile as a PDF scatter plot."; pipeline.rst:                 *)
    (* "cnvkit.py scatter Sample.cnr -s Sample.cns -o Sample-scatter.pdf"                                                 *)
      [] cl = "scatter_output_pdf" -> \A j \in 1..Len(c.tumors) : ScatterPdf(c, c.tumors[j]) \in Present(r)
    (* batch -h: "--diagram  Create an ideogram of copy ratios on chromosomes as a PDF."; "-o Sample-diagram.pdf"           *)
      [] cl = "diagram_output_pdf" -> \A j \in 1..Len(c.tumors) : DiagramPdf(c, c.tumors[j]) \in Present(r)
    (* pipeline.rst: "# Optionally, with --scatter and --diagram"                                                         *)
      [] cl = "plots_only_if_asked" -> \A f \in Present(r) : Ext(f) \notin {"pdf", "png"}
    (* batch -h, --output-reference: "Output filename/path for the new reference file being created. (If given, ignores the   *)
    (* -o/--output-dir option and will write the file to the given path. Otherwise, "reference.cnn" will be created in the     *)
    (* current directory or specified output directory.)"                                                                *)
      [] cl = "reference_output_path" ->
            /\ RefPath(c) \in Present(r)
            /\ (RefPath(c) # InOut(c, <<"reference", "cnn">>)) => InOut(c, <<"reference", "cnn">>) \notin Present(r)
    (* quickstart.rst: "Run batch with just the normal samples specified as normal, yielding coverage .cnn files and a        *)
    (* pooled reference"; pipeline.rst: "# For each sample... coverage ... -o Sample.targetcoverage.cnn / ...antitarget..."  *)
      [] cl = "normal_coverages_written" -> \A j \in 1..Len(c.normals) : \A suf \in {CovT, CovA} : SampleFile(c, c.normals[j], suf) \in Present(r)
    (* pipeline.rst: "# With all normal samples... cnvkit.py reference *Normal.{,anti}targetcoverage.cnn --fasta hg19.fa -o     *)
    (* my_reference.cnn"; quickstart.rst / -n help: "If this option is used but no filenames are given, a "flat" reference    *)
    (* will be built" (= `reference -t targets -a antitargets [-f fasta]`); nonhybrid.rst: --no-edge for wgs / amplicon.       *)
    (* The harness runs that command on the run's own files; the bytes must agree.                                         *)
      [] cl = "reference_equals_stepwise" -> SameAsStep(r, RefPath(c))
    (* nonhybrid.rst: "batch -m amplicon ... Equivalently: cnvkit.py target targets.bed --split -o targets.split.bed"       *)
      [] cl = "targets_equal_target_cmd" -> \E f \in Created(r) : HasIn(r.step, f) /\ Len(f.n) >= 2 /\ SubSeq(f.n, Len(f.n) - 1, Len(f.n)) = <<"target", "bed">>
                                                              /\ IdIn(r.step, f) = IdOf(r, f)
    (* nonhybrid.rst: wgs "No "antitarget" regions are used."; amplicon "ignoring off-target regions ... Create a blank file   *)
    (* to substitute for antitargets"; batch -h -m: "Determines whether and how to use antitarget bins."                   *)
      [] cl = "nonhybrid_no_antitargets" ->
            /\ \A j \in 1..Len(Samples(c)) : LET f == SampleFile(c, Samples(c)[j], CovA) IN f \in Present(r) => RowsOf(r, f) = 0
            /\ \A f \in Created(r) : (Len(f.n) >= 2 /\ SubSeq(f.n, Len(f.n) - 1, Len(f.n)) = <<"antitarget", "bed">>) => RowsOf(r, f) = 0
    (* pipeline.rst: "cnvkit.py coverage Sample.bam baits.target.bed -o Sample.targetcoverage.cnn" / "...antitarget..."      *)
      [] cl = "coverage_equals_coverage_cmd" -> \A j \in 1..Len(Samples(c)) : \A suf \in {CovT, CovA} : SameAsStep(r, SampleFile(c, Samples(c)[j], suf))
    (* pipeline.rst: fix; segment; segmetrics --ci --alpha 0.5 --smooth-bootstrap; call --method none --filter ci;           *)
    (* segmetrics --t-test; call --center median; bintest --target  (tables handed on in memory, options as listed)          *)
      [] cl = "sample_equals_stepwise" -> \A j \in 1..Len(c.tumors) : \A k \in 3..6 : SameAsStep(r, SampleFile(c, c.tumors[j], SampleSufs[k]))
    (* quickstart.rst: "You can reuse the reference file you've previously constructed to extract copy number information      *)
    (* from additional tumor sample BAM files, without repeating the steps above."; pipeline.rst "# Reusing a reference"       *)
      [] cl = "reuse_skips_reference_building" ->
            /\ c.ref \notin Changed(r) /\ c.ref \notin BSetOf(r.gone)
            /\ InOut(c, <<"reference", "cnn">>) \notin Present(r)
            /\ \A f \in Created(r) : ~(Len(f.n) >= 2 /\ SubSeq(f.n, Len(f.n) - 1, Len(f.n)) \in {<<"target", "bed">>, <<"antitarget", "bed">>})
    (* same sentence: the reused reference gives the samples the results of the run that built it                            *)
      [] cl = "reuse_equals_fresh" -> \A j \in 1..Len(c.tumors) : \A k \in 1..6 :
                LET f == SampleFile(c, c.tumors[j], SampleSufs[k])
                    g == F("pre", f.n)
                IN f \in Present(r) /\ HasIn(r.fresh, g) /\ IdIn(r.fresh, g) = IdOf(r, f)
    (* pipeline.rst: "# Reusing targets and antitargets to build a new reference, but no analysis"                         *)
      [] cl = "no_analysis_without_tumors" -> \A f \in Present(r) : Ext(f) \notin {"cnr", "cns", "pdf", "png"}
    (* core.ensure_path: "If a file already exists at the given path, it is renamed with an integer suffix to clear the way." *)
      [] cl = "existing_reference_kept" -> LET p == r.prior[1] IN
                \E i \in 1..Len(r.created) : r.created[i].f = F(p.f.d, p.f.n \o <<"1">>) /\ r.created[i].id = p.id
      [] OTHER -> FALSE
(* A-layer vs. observation *)
BatchDrift(r) ==
    LET c == r.cfg
        a == ARun(c)
        rank(f) == Entry(r, f).rank
        backup == IF c.prior_ref THEN {F(RefPath(c).d, RefPath(c).n \o <<"1">>)} ELSE {}      \* a rename keeps the old time
    IN \/ r.err # a.err
       \/ Created(r) # BSetOf(a.files)
       \/ Changed(r) # a.changed
       \/ r.gone # <<>>
       \/ \E p \in ABefore(c) : p[1] \in Created(r) \ backup /\ p[2] \in Created(r) \ backup /\ rank(p[1]) > rank(p[2])
       \/ (Ok(r) /\ ~Reuse(c) /\ HasIn(r.step, a.tb) /\ a.tb \in Created(r) /\ IdIn(r.step, a.tb) # IdOf(r, a.tb))    \* target bed = `target --split`

(* ================================================================================ samutil.ensure_bam_index ======= *)
(* [op "index", kind ("bam" | "cram"), bam_t, i1, i2: [ex, t] the index files before (i1 = MySample.bam.bai / .cram.crai,    *)
(*  i2 = MySample.bai / .crai; t = modification time), ret (1 | 2: which of them is returned, 0: something else), calls      *)
(*  (of pysam.index), p1, p2: [ex, t, touched] afterwards, err]                                                            *)
IdxFirst(r) == IF r.i1.ex THEN 1 ELSE IF r.i2.ex THEN 2 ELSE 0
IdxPre(r, k) == IF k = 1 THEN r.i1 ELSE r.i2
IdxPost(r, k) == IF k = 1 THEN r.p1 ELSE r.p2
IndexClauses == {"index_exists_after", "index_fresh_after", "index_lookup_order", "fresh_index_kept"}
IndexApplies(cl, r) == cl = "fresh_index_kept" => (IdxFirst(r) # 0 /\ IdxPre(r, IdxFirst(r)).t > r.bam_t)
IndexHolds(cl, r) ==
    CASE
    (* "Ensure a BAM file is indexed, to enable fast traversal & lookup."; assert message "Failed to generate bam index"      *)
         cl = "index_exists_after" -> NoErr(r) /\ r.ret \in {1, 2} /\ IdxPost(r, r.ret).ex
    (* is_newer_than: "Compare file modification times." -- the index returned is not older than the BAM it indexes            *)
      [] cl = "index_fresh_after" -> NoErr(r) /\ r.ret \in {1, 2} /\ IdxPost(r, r.ret).t >= r.bam_t
    (* "For MySample.bam, samtools will look for an index in these files, in order: - MySample.bam.bai - MySample.bai"          *)
      [] cl = "index_lookup_order" -> NoErr(r) /\ (r.p1.ex => r.ret = 1)
    (* "Ensure ... is indexed": an index that is already newer than the BAM (the first in samtools' order) is left alone         *)
      [] cl = "fresh_index_kept" -> NoErr(r) /\ r.calls = 0 /\ ~r.p1.touched /\ ~r.p2.touched /\ r.ret = IdxFirst(r)
      [] OTHER -> FALSE
(* A-layer: which file is looked at, `>=` on the times, pysam.index writes MySample.bam.bai and that name is returned *)
IndexCoded(r) ==
    LET k == IF r.i1.ex THEN 1 ELSE 2
        newer == IdxPre(r, k).ex /\ IdxPre(r, k).t >= r.bam_t
    IN IF newer THEN [ret |-> k, calls |-> 0, touched |-> {}] ELSE [ret |-> 1, calls |-> 1, touched |-> {1}]
IndexDrift(r) == LET a == IndexCoded(r) IN
    r.ret # a.ret \/ r.calls # a.calls \/ {k \in {1, 2} : IdxPost(r, k).touched} # a.touched
    \/ \E k \in {1, 2} : IdxPost(r, k).ex # (IdxPre(r, k).ex \/ k \in a.touched)

(* ================================================================================ samutil.ensure_bam_sorted ====== *)
(* [op "sorted", by_name, span, reads: <<[tid (0-based, -1 unplaced), pos, q (rank of the read name)]>>, out, err]            *)
SortedKey(x) == IF x.tid < 0 THEN 1000000 ELSE x.tid
PosSortedPair(a, b) == SortedKey(a) < SortedKey(b) \/ (SortedKey(a) = SortedKey(b) /\ a.pos <= b.pos)
WholeSorted(r) == \A i \in 2..Len(r.reads) : IF r.by_name THEN r.reads[i - 1].q <= r.reads[i].q ELSE PosSortedPair(r.reads[i - 1], r.reads[i])
SomeInversion(r) == \E i \in 2..Len(r.reads) : IF r.by_name THEN r.reads[i - 1].q > r.reads[i].q
                                                 ELSE r.reads[i - 1].tid = r.reads[i].tid /\ r.reads[i - 1].pos > r.reads[i].pos
SortedClauses == {"sorted_accepted", "rejected_only_if_unsorted"}
SortedApplies(cl, r) == NoErr(r) /\ (cl = "sorted_accepted" => WholeSorted(r)) /\ (cl = "rejected_only_if_unsorted" => ~r.out)
SortedHolds(cl, r) ==
    CASE
    (* "Test if the reads in a BAM file are sorted as expected. ... by_name=False: reads are sorted by position. Consecutive     *)
    (* reads have increasing position.  by_name=True: ... Consecutive read IDs are in alphabetical order"                      *)
         cl = "sorted_accepted" -> r.out
      [] cl = "rejected_only_if_unsorted" -> SomeInversion(r)
      [] OTHER -> FALSE
(* A-layer: only the first `span` reads are looked at; a change of contig is never out of order *)
SortedCoded(r) == LET n == IF Len(r.reads) < r.span THEN Len(r.reads) ELSE r.span IN
    \A i \in 2..n : IF r.by_name THEN r.reads[i - 1].q <= r.reads[i].q
                    ELSE r.reads[i].tid # r.reads[i - 1].tid \/ r.reads[i - 1].pos <= r.reads[i].pos
SortedDrift(r) == NoErr(r) /\ r.out # SortedCoded(r)

(* ================================================================================ idxstats / total / read length == *)
(* [op "bamstats", contigs: <<length>>, reads: <<[tid (0-based, -1 unplaced), unm, qlen]>>, span, table: <<[c (1-based),        *)
(*  len, mapped]>> (idxstats(drop_unmapped=True)), total, rl2 (twice the read length; -1 = nan), err]                         *)
MappedOn(r, c) == Cardinality({i \in 1..Len(r.reads) : r.reads[i].tid = c - 1 /\ ~r.reads[i].unm})
StatsClauses == {"total_is_mapped_reads", "idxstats_rows", "read_length_of_uniform_reads"}
StatsApplies(cl, r) == cl = "read_length_of_uniform_reads" =>
    (Len(r.reads) > 0 /\ \A i \in 1..Len(r.reads) : r.reads[i].qlen = r.reads[1].qlen /\ r.reads[1].qlen > 0)
StatsHolds(cl, r) ==
    CASE
    (* bam_total_reads: "Count the total number of mapped reads in a BAM file."                                             *)
         cl = "total_is_mapped_reads" -> NoErr(r) /\ r.total = Cardinality({i \in 1..Len(r.reads) : r.reads[i].tid >= 0 /\ ~r.reads[i].unm})
    (* idxstats: "Get chromosome names, lengths, and number of mapped/unmapped reads. ... Contigs with no mapped reads are        *)
    (* skipped."                                                                                                         *)
      [] cl = "idxstats_rows" -> NoErr(r) /\ LET want == SelectSeq([c \in 1..Len(r.contigs) |-> [c |-> c, len |-> r.contigs[c], mapped |-> MappedOn(r, c)]],
                                                                 LAMBDA x : x.mapped > 0) IN r.table = want
    (* get_read_length: "Get (median) read length from first few reads in a BAM file. Illumina reads all have the same length"   *)
      [] cl = "read_length_of_uniform_reads" -> NoErr(r) /\ r.rl2 = 2 * r.reads[1].qlen
      [] OTHER -> FALSE
(* A-layer: the median of the positive query lengths among the first `span` reads; nan when there is none *)
RlCoded(r) ==
    LET n == IF Len(r.reads) < r.span THEN Len(r.reads) ELSE r.span
        idx == {i \in 1..n : r.reads[i].qlen > 0}
        m == Cardinality(idx)
        below(i) == Cardinality({j \in idx : r.reads[j].qlen < r.reads[i].qlen \/ (r.reads[j].qlen = r.reads[i].qlen /\ j < i)})
        kth(k) == r.reads[CHOOSE i \in idx : below(i) = k].qlen                  \* k-th smallest, 0-based
    IN IF m = 0 THEN -1 ELSE IF m % 2 = 1 THEN 2 * kth(m \div 2) ELSE kth(m \div 2 - 1) + kth(m \div 2)
StatsDrift(r) == NoErr(r) /\ r.rl2 # RlCoded(r)

(* ================================================================================ parallel.pick_pool / SerialPool == *)
(* [op "pool", nprocs, xs, a, b (the function x -> a * x + b), kind ("serial" | "process"), maxw (its worker limit, 0 for         *)
(*  the serial pool), cpu (maxw = number of CPUs), sub, map: results of submit(f, x).result() / list(map(f, xs)), err]          *)
PoolClauses == {"pool_calls_function", "pool_uses_all_cpus_when_not_positive"}
PoolApplies(cl, r) == cl = "pool_uses_all_cpus_when_not_positive" => r.nprocs < 1
PoolHolds(cl, r) ==
    CASE
    (* SerialPool: "Mimic the concurrent.futures.Executor interface, but run in serial."; submit: "Just call the function on      *)
    (* the arguments."; map: "Just apply the function to `iterable`."                                                       *)
         cl = "pool_calls_function" -> NoErr(r) /\ r.sub = [i \in 1..Len(r.xs) |-> r.a * r.xs[i] + r.b] /\ r.map = r.sub
    (* batch -h, -p: "Without an argument, use the maximum number of available CPUs."; segment -h: "Give 0 or a negative value    *)
    (* to use the maximum number of available CPUs"                                                                       *)
      [] cl = "pool_uses_all_cpus_when_not_positive" -> NoErr(r) /\ r.kind = "process" /\ r.cpu
      [] OTHER -> FALSE
PoolDrift(r) == NoErr(r) /\ ~(IF r.nprocs = 1 THEN r.kind = "serial" /\ r.maxw = 0
                              ELSE r.kind = "process" /\ (IF r.nprocs > 1 THEN r.maxw = r.nprocs ELSE r.cpu))

(* ================================================================================ parallel.rm ===================== *)
(* [op "rm", kind ("file" | "missing" | "dir" | "link"), exists_after, err] *)
RmClauses == {"rm_is_safe"}
RmHolds(cl, r) ==
    (* rm: "Safely remove a file."  -- never raises; a file (or a link to one) is gone afterwards *)
    cl = "rm_is_safe" /\ NoErr(r) /\ (r.kind \in {"file", "link", "missing"} => ~r.exists_after)
RmDrift(r) == NoErr(r) /\ r.exists_after # (r.kind = "dir")          \* os.unlink of a directory fails; swallowed

(* ================================================================================ parallel.to_chunks ============== *)
(* [op "chunks", lines: <<int>> (line ids; negative = a line starting with '#'), size, gz, chunks: <<<<int>>>>, err]            *)
RECURSIVE BFlatten(_)
BFlatten(ss) == IF ss = <<>> THEN <<>> ELSE ss[1] \o BFlatten(Tail(ss))
DataLines(r) == SelectSeq(r.lines, LAMBDA x : x > 0)
ChunkClauses == {"chunks_partition"}
ChunkHolds(cl, r) ==
    (* to_chunks: "Split a BED file into `chunk_size`-line parts for parallelization."  (lines starting with # are skipped)     *)
    cl = "chunks_partition" /\ NoErr(r) /\ BFlatten(r.chunks) = DataLines(r)
    /\ \A i \in 1..Len(r.chunks) : Len(r.chunks[i]) >= 1 /\ Len(r.chunks[i]) <= r.size /\ (i < Len(r.chunks) => Len(r.chunks[i]) = r.size)
(* A-layer: ceil(k / size) parts; a .gz file is read in text mode like the plain one (since 8a99280) *)
ChunkCoded(r) == LET d == DataLines(r)
                     n == (Len(d) + r.size - 1) \div r.size
                 IN [i \in 1..n |-> SubSeq(d, (i - 1) * r.size + 1, IF i * r.size < Len(d) THEN i * r.size ELSE Len(d))]
ChunkDrift(r) == NoErr(r) /\ r.chunks # ChunkCoded(r)

(* ================================================================================ the interface of the trace module  *)
Clauses(op) == CASE op = "batch" -> BatchClauses [] op = "index" -> IndexClauses [] op = "sorted" -> SortedClauses
                 [] op = "bamstats" -> StatsClauses [] op = "pool" -> PoolClauses [] op = "rm" -> RmClauses
                 [] op = "chunks" -> ChunkClauses [] OTHER -> {}
Applies(cl, r) == CASE r.op = "batch" -> BatchApplies(cl, r) [] r.op = "index" -> IndexApplies(cl, r) [] r.op = "sorted" -> SortedApplies(cl, r)
                    [] r.op = "bamstats" -> StatsApplies(cl, r) [] r.op = "pool" -> PoolApplies(cl, r) [] OTHER -> TRUE
Holds(cl, r) == CASE r.op = "batch" -> BatchHolds(cl, r) [] r.op = "index" -> IndexHolds(cl, r) [] r.op = "sorted" -> SortedHolds(cl, r)
                  [] r.op = "bamstats" -> StatsHolds(cl, r) [] r.op = "pool" -> PoolHolds(cl, r) [] r.op = "rm" -> RmHolds(cl, r)
                  [] r.op = "chunks" -> ChunkHolds(cl, r) [] OTHER -> FALSE
(* premises: the configuration lies in the modelled space (the harness's world holds every file named; segmentation 'haar'   *)
(* or 'none', R is not installed); chunk size positive; span positive                                                     *)
Premise(r) ==
    CASE r.op = "batch" -> r.cfg.method \in {"hybrid", "amplicon", "wgs"} /\ r.cfg.segm \in {"haar", "none"} /\ r.cfg.procs >= 1
                           /\ (Reuse(r.cfg) => Absent(r.cfg.outref) /\ ~r.cfg.prior_ref)
      [] r.op = "index" -> r.kind \in {"bam", "cram"}
      [] r.op = "sorted" -> r.span >= 1
      [] r.op = "bamstats" -> r.span >= 1
      [] r.op = "chunks" -> r.size >= 1
      [] OTHER -> TRUE
Drift(r) == CASE r.op = "batch" -> BatchDrift(r) [] r.op = "index" -> IndexDrift(r) [] r.op = "sorted" -> SortedDrift(r)
              [] r.op = "bamstats" -> StatsDrift(r) [] r.op = "pool" -> PoolDrift(r) [] r.op = "rm" -> RmDrift(r)
              [] r.op = "chunks" -> ChunkDrift(r) [] OTHER -> FALSE
(* open findings (known_findings.json): narrow characterisations of the inputs on which a documented clause fails *)
KnownTriggers == {"ScatterAsked", "DiagramEveryGeneSquashed"}
TriggerHolds(t, r) ==
    CASE t = "ScatterAsked" -> r.op = "batch" /\ r.cfg.scatter /\ Len(r.cfg.tumors) > 0 /\ Ok(r)
      (* every gene of the target bed has >= 2 bins (tgt_min_run: the shortest run of equally named rows) and the sample has *)
      (* no antitarget bins: every row of the .cnr is squashed by the diagram                                              *)
      [] t = "DiagramEveryGeneSquashed" ->
            /\ r.op = "batch" /\ ~Refused(r.cfg) /\ r.cfg.diagram /\ Len(r.cfg.tumors) > 0 /\ r.tgt_min_run >= 2
            /\ LET f == SampleFile(r.cfg, r.cfg.tumors[1], CovA) IN f \in Present(r) /\ RowsOf(r, f) = 0
      [] OTHER -> FALSE
=============================================================================
