--------------------------- MODULE MC_Gary ---------------------------
(* Behaviour generator + design check for X02.  A behaviour is a sequence of method calls on the  *)
(* 1-2 initial arrays of a world (and on the arrays the calls return).  TLC enumerates them        *)
(* (exhaustively up to MaxLen, or by -simulate); the model state is the A-layer (Gary!Step) folded *)
(* over the calls, and every step is checked against the P-layer (DesignOK: A |= P).  The `path`    *)
(* variable is what the harness executes on real objects.                                          *)
EXTENDS Gary
CONSTANTS WorldSet,    \* indices of the worlds explored in this run
          MaxLen       \* calls per behaviour
VARIABLES w, path
vars == <<w, path>>

ResNames == <<"r1", "r2", "r3", "r4", "r5", "r6">>
Ev(m, recv, arg, res, p, cs) == [m |-> m, recv |-> recv, arg |-> arg, res |-> res, p |-> p, cs |-> cs]
Menu(ww) == Worlds[ww].menu
AltBits(n) == LET RECURSIVE S(_)
                  S(j) == IF j > n THEN 0 ELSE Pow2(j - 1) + S(j + 2)
              IN S(1)
Masks(n) == IF n = 0 THEN {0} ELSE {0, Pow2(n) - 1, AltBits(n)}
MaxRows == 12       \* arrays are not grown beyond this by add / concat (the scope stays small)
ConcatSize(kind, o, a) == CASE kind = 0 -> 0 [] kind = 1 -> N(a) [] kind = 3 -> 2 * N(a) [] OTHER -> N(o) + N(a)

(* events with receiver x; res = the name a returned array will get *)
ObjEvents(ww, os, x, res) ==
    LET o == TLCEval(os[x])  n == N(o)  M == Menu(ww)  ops == Range(M.ops)
        cna == o.cls = "CNA"
        On(m) == m \in ops
        hasgene == HasCol(o.cols, "gene")
    IN
    IF Mixed(o)
    THEN {Ev(m, x, "", "", <<>>, <<>>) : m \in {"sort", "labels", "len"} \cap ops}
         \cup {Ev("copy", x, "", res, <<>>, <<>>) : q \in {1} \cap (IF On("copy") THEN {1} ELSE {})}
         \cup {Ev("getitem_slice", x, "", res, <<3>>, <<>>) : q \in (IF On("getitem_slice") THEN {1} ELSE {})}
         \cup {Ev("by_arm", x, "", "", M.arms[1], <<>>) : q \in (IF On("by_arm") /\ M.arms # <<>> THEN {1} ELSE {})}
    ELSE
       {Ev(m, x, "", "", <<>>, <<>>) : m \in {"len", "bool", "iter", "labels", "by_chromosome", "shuffle", "sort", "sort_columns", "as_series"} \cap ops}
    \cup {Ev(m, x, "", res, <<>>, <<>>) : m \in {"copy", "drop_extra_columns"} \cap ops}
    \cup {Ev("getitem_none", x, "", res, <<k>>, <<>>) : k \in (IF On("getitem_none") THEN {0, 1} ELSE {})}
    \cup {Ev("getitem_int", x, "", "", <<k>>, <<>>) : k \in (IF On("getitem_int") THEN Range(M.intidx) ELSE {})}
    \cup {Ev("setitem_int", x, "", "", <<k>>, <<>>) : k \in (IF On("setitem_int") THEN Range(M.setidx) ELSE {})}
    \cup {Ev("getitem_col", x, "", "", <<>>, <<c>>) : c \in (IF On("getitem_col") THEN Range(M.getcols) ELSE {})}
    \cup {Ev("contains", x, "", "", <<>>, <<c>>) : c \in (IF On("contains") THEN Range(M.getcols) ELSE {})}
    \cup {Ev("getitem_cell", x, "", "", <<k>>, <<c>>) : k \in (IF On("getitem_cell") THEN Range(M.labels) ELSE {}), c \in Range(M.cellcols)}
    \cup {Ev("setitem_cell", x, "", "", <<k, 33>>, <<"start">>) : k \in (IF On("setitem_cell") THEN Range(M.labels) \cap Range(o.index) ELSE {})}
    \cup {Ev("getitem_slice", x, "", res, <<k>>, <<>>) : k \in (IF On("getitem_slice") THEN Range(M.slices) ELSE {})}
    \cup {Ev("setitem_slice", x, "", "", <<k>>, <<>>) : k \in (IF On("setitem_slice") THEN Range(M.setslices) ELSE {})}
    \cup {Ev("getitem_mask", x, "", res, <<b>>, <<>>) : b \in (IF On("getitem_mask") THEN Masks(n) ELSE {})}
    \cup {Ev("setitem_maskrows", x, "", "", <<b>>, <<>>) : b \in (IF On("setitem_maskrows") /\ n > 0 THEN {AltBits(n)} ELSE {})}
    \cup {Ev("setitem_maskcell", x, "", "", <<b, 44>>, <<"end">>) : b \in (IF On("setitem_maskcell") /\ n > 0 THEN {AltBits(n)} ELSE {})}
    \cup {Ev("getitem_ints", x, "", res, q, <<>>) : q \in (IF On("getitem_ints") THEN Range(M.ints) ELSE {})}
    \cup {Ev("setitem_col", x, "", "", <<sc[1]>>, <<sc[2]>>) : sc \in (IF On("setitem_col") THEN Range(M.setcols) ELSE {})}
    \cup {Ev("autosomes", x, "", res, <<0, 0>>, <<>>) : q \in (IF On("autosomes") THEN {1} ELSE {})}
    \cup {Ev("autosomes", x, "", res, <<k, c>>, <<>>) : k \in (IF On("autosomes") THEN {1, 2} ELSE {}), c \in Range(M.also)}
    \cup {Ev("by_arm", x, "", "", ar, <<>>) : ar \in (IF On("by_arm") THEN Range(M.arms) ELSE {})}
    \cup {Ev("coords", x, "", "", <<cc[1]>>, cc[2]) : cc \in (IF On("coords") THEN Range(M.coords) ELSE {})}
    \cup {Ev("add_columns", x, "", res, <<>>, c) : c \in (IF On("add_columns") THEN Range(M.addcols) ELSE {})}
    \cup {Ev("keep_columns", x, "", res, <<>>, c) : c \in (IF On("keep_columns") THEN Range(M.keepcols) ELSE {})}
    \cup {Ev("filter", x, "", res, <<1, c, 0>>, <<>>) : c \in (IF On("filter") THEN Range(M.chroms) ELSE {})}
    \cup {Ev("filter", x, "", res, <<2, g, 0>>, <<>>) : g \in (IF On("filter") THEN Range(M.genes) ELSE {})}
    \cup {Ev("filter", x, "", res, <<3, t, 0>>, <<>>) : t \in (IF On("filter") THEN Range(M.thr) ELSE {})}
    \cup {Ev("filter", x, "", res, <<4, M.thr[1], M.chroms[1]>>, <<>>) : q \in (IF On("filter") /\ M.thr # <<>> /\ M.chroms # <<>> THEN {1} ELSE {})}
    \cup {Ev("filter", x, "", res, <<k, 0, 0>>, <<>>) : k \in (IF On("filter") THEN {5, 6} ELSE {})}
    \cup {Ev("as_columns", x, "", res, <<k>>, <<>>) : k \in (IF On("as_columns") THEN Range(M.dsas) ELSE {})}
    \cup {Ev("as_rows", x, "", res, <<k>>, <<>>) : k \in (IF On("as_rows") THEN
                  {k \in Range(M.dsrows) : LET d == DS(ww, k) IN
                        \/ d.cols = o.cols /\ \A j \in Idx(d.rows) : Len(d.rows[j]) = Len(o.cols)
                        \/ d.rows # <<>> /\ Len(d.rows[1]) # Len(o.cols)} ELSE {})}
    (* CopyNumArray *)
    \cup {Ev(m, x, "", "", <<>>, <<>>) : m \in (IF cna THEN {"log2_get", "chr_x_label", "chr_y_label", "chr_x_filter", "residuals"} \cap ops ELSE {})}
    \cup {Ev("log2_set", x, "", "", <<k>>, <<>>) : k \in (IF cna /\ On("log2_set") THEN {0, 1} ELSE {})}
    \cup {Ev("expect_flat", x, "", "", <<k>>, <<>>) : k \in (IF cna /\ On("expect_flat") THEN {0, 1} ELSE {})}
    \cup {Ev("drop_low_coverage", x, "", res, <<>>, <<>>) : q \in (IF cna /\ On("drop_low_coverage") THEN {1} ELSE {})}

PairEvents(ww, os, x, y, res) ==
    LET o == TLCEval(os[x])  a == TLCEval(os[y])  M == Menu(ww)  ops == Range(M.ops)
        On(m) == m \in ops
    IN
    IF Mixed(o) \/ Mixed(a) THEN {}
    ELSE
       {Ev("eq", x, y, "", <<>>, <<>>) : q \in (IF On("eq") THEN {1} ELSE {})}
    \cup {Ev("as_dataframe", x, y, res, <<k>>, <<>>) : k \in (IF On("as_dataframe") THEN {0, 1} ELSE {})}
    \cup {Ev("add", x, y, "", <<>>, <<>>) : q \in (IF On("add") /\ (SameColSet(o, a) \/ ~IsInst(a.cls, o.cls)) /\ N(o) + N(a) <= MaxRows THEN {1} ELSE {})}
    \cup {Ev("concat", x, y, res, <<k>>, <<>>) : k \in (IF On("concat") /\ SameColSet(o, a) THEN {k \in Range(M.concat) : ConcatSize(k, o, a) <= MaxRows} ELSE {})}

ClassEvents(ww, res) ==
    LET M == Menu(ww)  ops == Range(M.ops) IN
       {Ev("new_none", "", "", res, <<k>>, <<>>) : k \in (IF "new_none" \in ops THEN Range(M.classes) ELSE {})}
    \cup {Ev("new_rows", "", "", res, <<k, d>>, <<>>) : k \in (IF "new_rows" \in ops THEN Range(M.classes) ELSE {}), d \in Range(M.dsnew)}
    \cup {Ev("new_cols", "", "", res, <<k, d>>, <<>>) : k \in (IF "new_cols" \in ops THEN Range(M.classes) ELSE {}), d \in Range(M.dscols)}

Events(ww, os, res) ==
    ClassEvents(ww, res)
    \cup UNION {ObjEvents(ww, os, x, res) : x \in DOMAIN os}
    \cup UNION {PairEvents(ww, os, x, y, res) : x \in DOMAIN os, y \in DOMAIN os}

(* The TLC state is the behaviour itself (world, calls so far); the model state of the arrays is a function *)
(* of it (Run: the A-layer folded over the calls), so enumerating / sampling successors costs no Step.       *)
Start(ww) == [objs |-> FromObsAll(Worlds[ww].init), al |-> [nm \in DOMAIN Worlds[ww].init |-> nm], copies |-> {}]
Run(ww, pth) ==
    LET RECURSIVE R(_, _)
        R(st, k) == IF k > Len(pth) THEN st
                    ELSE LET ev == pth[k]
                             s == TLCEval(Step(ww, st.objs, st.al, ev))
                         IN R(TLCEval([objs |-> s.objs, al |-> s.al,
                               copies |-> IF ev.m = "copy" /\ s.err = "" THEN st.copies \cup {<<ev.recv, ev.res>>} ELSE st.copies]),
                              k + 1)
    IN R(TLCEval(Start(ww)), 1)
(* the last step as a record the P-layer can judge *)
LastStep(ww, pth) ==
    LET st == TLCEval(Run(ww, SubSeq(pth, 1, Len(pth) - 1)))
        ev == pth[Len(pth)]
        s == TLCEval(Step(ww, st.objs, st.al, ev))
    IN [w |-> ww, pre |-> st.objs, post |-> s.objs, al |-> st.al, copies |-> st.copies,
        ev |-> [m |-> ev.m, recv |-> ev.recv, arg |-> ev.arg, res |-> ev.res, p |-> ev.p, cs |-> ev.cs,
                err |-> s.err, ret |-> s.ret, alias |-> s.alias]]

Init == w \in WorldSet /\ path = <<>>
Next == /\ Len(path) < MaxLen
        /\ LET os == TLCEval(Run(w, path).objs) IN
           \E ev \in TLCEval(Events(w, os, ResNames[Len(path) + 1])) : path' = Append(path, ev)
        /\ UNCHANGED w
Spec == Init /\ [][Next]_vars

(* design-level statement: the algorithm as modelled satisfies every documented clause, except where a  *)
(* listed finding says the code does not                                                               *)
DesignOK == path # <<>> =>
    LET last == TLCEval(LastStep(w, path)) IN
    (Premise(last) /\ ~\E t \in KnownTriggers : TriggerHolds(t, last)) => \A c \in Clauses(last) : Holds(c, last)
(* the listed findings are visible in the model: with this invariant the A-layer (the code as it is) breaks the clause *)
DesignFindingsVisible == path # <<>> =>
    LET last == LastStep(w, path) IN Premise(last) => \A c \in Clauses(last) : Holds(c, last)
=============================================================================
