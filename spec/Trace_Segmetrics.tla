--------------------------- MODULE Trace_Segmetrics ---------------------------
(* Trace validation for C17: one record per recorded call (pair of calls) of the real cnvlib.segmetrics /        *)
(* cnvlib.bintest code; verdicts are carried as state (total verdicts) and read from the dump.  `undecided`       *)
(* holds the clauses the Phi table could not decide for the record (counted, never a violation).                 *)
EXTENDS Segmetrics, Json, IOUtils
Trace == JsonDeserialize(IOEnv.TRACE_FILE)
VARIABLES i, ph, failed, scope, triggers, drift, checked, undecided
vars == <<i, ph, failed, scope, triggers, drift, checked, undecided>>
Init == /\ i \in 1..Len(Trace) /\ ph = "call"
        /\ failed = {} /\ scope = TRUE /\ triggers = {} /\ drift = FALSE /\ checked = {} /\ undecided = {}
Next == /\ ph = "call" /\ ph' = "ret" /\ UNCHANGED i
        /\ LET r == Trace[i] IN
           /\ scope' = Premise(r)
           /\ checked' = IF scope' THEN ClausesOf(r) ELSE {}      \* Clauses(r.op) minus the statistics not requested
           /\ failed' = {c \in checked' : ~Holds(c, r)}
           /\ undecided' = {c \in checked' : Undecided(c, r)}
           /\ triggers' = {t \in KnownTriggers : TriggerHolds(t, r)}
           /\ drift' = (scope' /\ failed' = {} /\ Drift(r))
Spec == Init /\ [][Next]_vars
NoFailure == failed = {}
=============================================================================
