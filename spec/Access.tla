--------------------------- MODULE Access ---------------------------
(* C13 -- `access` lists exactly the non-N runs of the genome, joined and excluded as asked.        *)
(*                                                                                                  *)
(* A FASTA text is a sequence of lines <<kind, codes>>:                                             *)
(*   kind 0 = header line, codes = the sequence name (the text after '>' up to the first blank),     *)
(*   kind 1 = sequence line, codes = its characters (no line terminator, no trailing blanks).        *)
(* Text the specification looks into is Seq(0..255) (character codes).  The n-th header opens        *)
(* sequence n; tables use n as the chromosome id (rows <<n, start, end, "">> as in Intervals.tla).   *)
(*                                                                                                  *)
(* P-layer: MaximalRuns of the concatenated sequence text, minus every exclude row, joined over gaps *)
(*          smaller than the minimum gap, contigs dropped by the package's name rule.               *)
(* A-layer: cnvlib/access.py case for case: the line scanner of get_regions as a state machine       *)
(*          (chrom, cursor, run, emitted) with one operator per line kind, then                      *)
(*          drop_noncanonical_contigs, GenomicArray.subtract per exclude file (Intervals.SubtractMerged), *)
(*          join_regions.                                                                            *)
EXTENDS Naturals, Integers, Sequences, FiniteSets, SequencesExt, FiniteSetsExt, Functions, TLC, ContigNames

(* Intervals.tla is reused through a named instance (its Clauses/Holds/... are C06's, this module has its own) *)
IV == INSTANCE Intervals
C(r) == IV!C(r)
S(r) == IV!S(r)
E(r) == IV!E(r)
Idx(t) == IV!Idx(t)
Chroms(t) == IV!Chroms(t)
OnChrom(t, c) == IV!OnChrom(t, c)
PositiveW(t) == IV!PositiveW(t)
NonNeg(t) == IV!NonNeg(t)
Covers(t, c, x) == IV!Covers(t, c, x)
BreaksOn(ts, c) == IV!BreaksOn(ts, c)
SortRows(t) == IV!SortRows(t)                    \* stable sort by (chromosome, start, end)
SubtractMerged(a, b) == IV!SubtractMerged(a, b)  \* skgenome subtract as repaired: subtrahend merged first
UniqSeq(s, acc) == IV!UniqSeq(s, acc)

NCode == 78            \* 'N' -- the only character the property (and the code) treats as masked; 'n' is sequence
None  == -1            \* Python None for cursor / run_start

IsHeader(l) == l[1] = 0
HdrIdx(f)   == SetToSortSeq({k \in 1..Len(f) : IsHeader(f[k])}, <)
NSeq(f)     == Cardinality({k \in 1..Len(f) : IsHeader(f[k])})
SeqName(f, n)  == f[HdrIdx(f)[n]][2]
SeqLines(f, n) == LET hs == HdrIdx(f)
                      lo == hs[n] + 1
                      hi == IF n < Len(hs) THEN hs[n+1] - 1 ELSE Len(f)
                  IN [j \in 1..(hi - lo + 1) |-> f[lo + j - 1][2]]
RECURSIVE ConcatRange(_, _, _)
ConcatRange(ls, lo, hi) == IF lo > hi THEN <<>>
                           ELSE IF lo = hi THEN ls[lo]
                           ELSE LET mid == (lo + hi) \div 2 IN ConcatRange(ls, lo, mid) \o ConcatRange(ls, mid + 1, hi)
(* the sequence as the FASTA format defines it: its lines joined, whatever the line width *)
SeqText(f, n) == LET ls == SeqLines(f, n) IN ConcatRange(ls, 1, Len(ls))

(* ================================================================= P-layer ============ *)
(* "exactly the maximal runs of characters other than 'N' (0-based half-open)" *)
MaximalRuns(T) ==
    LET ss == SetToSortSeq({x \in 1..Len(T) : T[x] # NCode /\ (x = 1 \/ T[x-1] = NCode)}, <)
        es == SetToSortSeq({x \in 1..Len(T) : T[x] # NCode /\ (x = Len(T) \/ T[x+1] = NCode)}, <)
    IN [k \in 1..Len(ss) |-> <<ss[k] - 1, es[k]>>]
RunsOf(f, n)  == LET rs == MaximalRuns(SeqText(f, n)) IN [k \in 1..Len(rs) |-> <<n, rs[k][1], rs[k][2], "">>]
RunsTable(f)  == FlattenSeq([n \in 1..NSeq(f) |-> RunsOf(f, n)])

Coords3(t) == [k \in Idx(t) |-> <<S(t[k]), E(t[k])>>]
SeparatedOn(t, n) == LET rows == OnChrom(t, n) IN \A k \in 1..Len(rows)-1 : E(rows[k]) + 1 <= S(rows[k+1])

AllExcl(r)    == FlattenSeq(r.excl)                       \* the rows of every exclude file
Dropped(r, n) == r.skip /\ NonCanonicalName(SeqName(r.fasta, n))   \* "dropped exactly when that option is on"

(* maximal stretches of bases of sequence n that are in a non-N run and in no exclude row (elementary-interval form) *)
Stretches(runs, ex, n) ==
    LET bs == SetToSortSeq(BreaksOn({runs, ex}, n), <)
        m  == Len(bs) - 1
        acc(k) == Covers(runs, n, bs[k]) /\ ~Covers(ex, n, bs[k])
        ss == SetToSortSeq({bs[k]   : k \in {j \in 1..m : acc(j) /\ (j = 1 \/ ~acc(j-1))}}, <)
        es == SetToSortSeq({bs[k+1] : k \in {j \in 1..m : acc(j) /\ (j = m \/ ~acc(j+1))}}, <)
    IN [k \in 1..Len(ss) |-> <<n, ss[k], es[k], "">>]
(* "joins neighbouring regions whose gap is smaller than the minimum gap size while leaving larger gaps" *)
JoinP(d, gap) ==
    LET m  == Len(d)
        ss == SetToSortSeq({S(d[k]) : k \in {j \in 1..m : j = 1 \/ S(d[j]) - E(d[j-1]) >= gap}}, <)
        es == SetToSortSeq({E(d[k]) : k \in {j \in 1..m : j = m \/ S(d[j+1]) - E(d[j]) >= gap}}, <)
    IN [k \in 1..Len(ss) |-> <<ss[k], es[k]>>]
ExpectedOn(r, runs, ex, n) == IF Dropped(r, n) THEN <<>> ELSE JoinP(Stretches(runs, ex, n), r.gap)

Clauses(op) ==
    CASE op = "regions" -> {"reg_noerr", "reg_known_contigs", "reg_exact_runs", "reg_nonempty", "reg_sorted_separated"}
      [] op = "access"  -> {"acc_noerr", "acc_known_contigs", "acc_noncanonical_dropped", "acc_kept_otherwise",
                            "acc_nonempty", "acc_sorted_separated", "acc_reports_all_accessible",
                            "acc_extra_only_in_bridged_gap", "acc_small_gaps_joined", "acc_larger_gaps_left",
                            "acc_exact"}
      [] OTHER -> {}

NoErr(r) == r.err = ""

Holds(c, r) ==
    LET f    == r.fasta
        ns   == NSeq(f)
        out  == r.out
        runs == RunsTable(f)
        ex   == AllExcl(r)
        kept == {n \in 1..ns : ~Dropped(r, n)}
        acc(n, x) == Covers(runs, n, x) /\ ~Covers(ex, n, x)
    IN
    CASE c \in {"reg_noerr", "acc_noerr"} -> NoErr(r)
      (* rows are reported only for sequences of the file *)
      [] c \in {"reg_known_contigs", "acc_known_contigs"} -> NoErr(r) => \A k \in Idx(out) : C(out[k]) \in 1..ns
      (* "reports per sequence exactly the maximal runs of characters other than 'N' (0-based half-open)" *)
      [] c = "reg_exact_runs" -> NoErr(r) => \A n \in 1..ns : Coords3(OnChrom(out, n)) = MaximalRuns(SeqText(f, n))
      (* "Every reported region is non-empty" *)
      [] c \in {"reg_nonempty", "acc_nonempty"} -> NoErr(r) => PositiveW(out)
      (* "regions of a sequence are sorted and separated by at least one base" *)
      [] c \in {"reg_sorted_separated", "acc_sorted_separated"} -> NoErr(r) => \A n \in Chroms(out) : SeparatedOn(out, n)
      (* "sequences whose names the contig-name rule deems non-canonical are dropped exactly when that option is on" *)
      [] c = "acc_noncanonical_dropped" ->
            NoErr(r) => \A k \in Idx(out) : C(out[k]) \in 1..ns => ~Dropped(r, C(out[k]))
      [] c = "acc_kept_otherwise" ->
            NoErr(r) => \A n \in kept : Stretches(runs, ex, n) # <<>> => OnChrom(out, n) # <<>>
      (* every base that is in a non-N run and in no exclude file is reported *)
      [] c = "acc_reports_all_accessible" ->
            NoErr(r) => \A n \in kept : \A x \in BreaksOn({runs, ex, out}, n) : acc(n, x) => Covers(out, n, x)
      (* "no reported base is an N or excluded unless it lies in a gap that was deliberately bridged" *)
      [] c = "acc_extra_only_in_bridged_gap" ->
            NoErr(r) => \A n \in kept :
                LET d == Stretches(runs, ex, n) IN
                \A x \in BreaksOn({runs, ex, out}, n) :
                    (Covers(out, n, x) /\ ~acc(n, x)) =>
                        \E k \in 1..Len(d)-1 : E(d[k]) <= x /\ x < S(d[k+1]) /\ S(d[k+1]) - E(d[k]) < r.gap
      (* "joins neighbouring regions whose gap is smaller than the minimum gap size" *)
      [] c = "acc_small_gaps_joined" ->
            NoErr(r) => \A n \in kept :
                LET d == Stretches(runs, ex, n) IN
                \A k \in 1..Len(d)-1 : S(d[k+1]) - E(d[k]) < r.gap =>
                    \E j \in Idx(out) : C(out[j]) = n /\ S(out[j]) <= S(d[k]) /\ E(d[k+1]) <= E(out[j])
      (* "while leaving larger gaps": a gap that is not smaller than the minimum is not bridged, no base of it reported *)
      [] c = "acc_larger_gaps_left" ->
            NoErr(r) => \A n \in kept :
                LET d == Stretches(runs, ex, n) IN
                \A k \in 1..Len(d)-1 : S(d[k+1]) - E(d[k]) >= r.gap =>
                    ~\E j \in Idx(out) : C(out[j]) = n /\ S(out[j]) < S(d[k+1]) /\ E(out[j]) > E(d[k])
      (* the sentences together fix the result: runs, minus excludes, joined iff gap < minimum, dropped contigs absent *)
      [] c = "acc_exact" -> NoErr(r) => \A n \in 1..ns : Coords3(OnChrom(out, n)) = ExpectedOn(r, runs, ex, n)

(* premise: a FASTA text (starts with a header, names non-empty and distinct, sequence lines of visible      *)
(* characters not starting with '>'); exclude rows with positive width at non-negative coordinates; gap >= 0 *)
Premise(r) ==
    /\ Len(r.fasta) >= 1 /\ IsHeader(r.fasta[1])
    /\ \A k \in 1..Len(r.fasta) : LET l == r.fasta[k] IN
          /\ l[1] \in {0, 1}
          /\ \A j \in 1..Len(l[2]) : l[2][j] \in 33..126
          /\ IsHeader(l) => Len(l[2]) >= 1
          /\ (~IsHeader(l) /\ Len(l[2]) >= 1) => l[2][1] # 62
    /\ \A m, n \in 1..NSeq(r.fasta) : m # n => SeqName(r.fasta, m) # SeqName(r.fasta, n)
    /\ r.op = "access" => /\ r.gap >= 0
                          /\ \A k \in 1..Len(r.excl) : PositiveW(r.excl[k]) /\ NonNeg(r.excl[k])

(* ================================================================= A-layer ============ *)
(* The scanner skips blank lines (`if not line: continue` after the rstrip; repaired in /repo, "fix: access      *)
(* ignores blank lines ...").  Before the repair a blank line fell into the "no N in line" branch and opened a  *)
(* run at the cursor; that behaviour is kept as the `skip = FALSE` variant of the operators below              *)
(* (GetRegionsUnrepaired) and documented by the design invariants DesignOldScannerOK / OldScannerDiffersOnlyOnTrigger *)
(* of MC_Access.                                                                                               *)
BlankLinesSkipped == TRUE

ScanInit == [chrom |-> 0, cursor |-> None, run |-> None, emitted |-> <<>>]
HasN(t)  == \E k \in 1..Len(t) : t[k] = NCode
AllNs(t) == \A k \in 1..Len(t) : t[k] = NCode
LineKindP(l, skip) ==
               IF IsHeader(l) THEN "header"
               ELSE IF skip /\ l[2] = <<>> THEN "blank"
               ELSE IF HasN(l[2]) THEN (IF AllNs(l[2]) THEN "alln" ELSE "mixed")
               ELSE "non"
LineKind(l) == LineKindP(l, BlankLinesSkipped)
Emit(st, s, e) == Append(st.emitted, <<st.chrom, s, e, "">>)

(* `if line.startswith(">")`: emit the open run, next chromosome, run_start = None, cursor = 0 *)
ScanHeader(st) == [chrom |-> st.chrom + 1, cursor |-> 0, run |-> None,
                   emitted |-> IF st.run # None THEN Emit(st, st.run, st.cursor) ELSE st.emitted]
(* `all(c == "N" for c in line)`: shortcut -- close the open run at the cursor *)
ScanAllN(st, t) == [st EXCEPT !.emitted = IF st.run # None THEN Emit(st, st.run, st.cursor) ELSE @,
                              !.run = None, !.cursor = @ + Len(t)]
(* slow route: a mix of N and non-N characters *)
ScanMixed(st, t) ==
    LET nidx  == SetToSortSeq({k - 1 : k \in {j \in 1..Len(t) : t[j] = NCode}}, <)     \* n_indices (0-based)
        first == nidx[1]
        last  == nidx[Len(nidx)]
        e1 == IF st.run # None THEN Emit(st, st.run, st.cursor + first)                 \* first block closes the open run
              ELSE IF first # 0 THEN Emit(st, st.cursor, st.cursor + first)              \* or is a run of its own
              ELSE st.emitted
        mids == SelectSeq([k \in 1..Len(nidx)-1 |-> <<nidx[k], nidx[k+1]>>], LAMBDA p : p[2] - p[1] > 1)   \* gap_mask
        e2 == e1 \o [k \in 1..Len(mids) |-> <<st.chrom, mids[k][1] + 1 + st.cursor, mids[k][2] + st.cursor, "">>]
    IN [chrom |-> st.chrom, cursor |-> st.cursor + Len(t),
        run |-> IF last + 1 < Len(t) THEN st.cursor + last + 1 ELSE None,               \* trailing non-N characters
        emitted |-> e2]
(* no N in the line: open a run at the cursor unless one is open (before the repair a blank line landed here, too) *)
ScanNoN(st, t) == [st EXCEPT !.run = IF @ = None THEN st.cursor ELSE @, !.cursor = @ + Len(t)]
(* `if not line: continue` *)
ScanBlank(st)  == st
(* after the loop: emit the last run *)
ScanEOF(st) == [st EXCEPT !.emitted = IF st.run # None THEN Emit(st, st.run, st.cursor) ELSE @]

ScanLineP(st, l, skip) == LET kind == LineKindP(l, skip) IN
    CASE kind = "header" -> ScanHeader(st)
      [] kind = "blank"  -> ScanBlank(st)
      [] kind = "alln"   -> ScanAllN(st, l[2])
      [] kind = "mixed"  -> ScanMixed(st, l[2])
      [] kind = "non"    -> ScanNoN(st, l[2])
(* the `for line in infile` loop: ScanLine folded left to right over lines lo..hi.  The range is split in   *)
(* halves only to keep TLC's evaluation stack shallow (a line-by-line recursion overflows it beyond ~150   *)
(* lines); the result is that of the plain left fold.                                                      *)
ScanLine(st, l) == ScanLineP(st, l, BlankLinesSkipped)
RECURSIVE ScanRange(_, _, _, _, _)
ScanRange(f, lo, hi, st, skip) ==
    IF lo > hi THEN st
    ELSE IF lo = hi THEN ScanLineP(st, f[lo], skip)
    ELSE LET mid  == (lo + hi) \div 2
             left == ScanRange(f, lo, mid, st, skip)
         IN IF left.chrom >= 0 THEN ScanRange(f, mid + 1, hi, left, skip) ELSE left    \* (the test forces `left` first)
GetRegionsP(f, skip) == ScanEOF(ScanRange(f, 1, Len(f), ScanInit, skip)).emitted
GetRegions(f) == GetRegionsP(f, BlankLinesSkipped)
GetRegionsUnrepaired(f) == GetRegionsP(f, FALSE)      \* the scanner before the blank-line repair

(* access.drop_noncanonical_contigs *)
DropNonCanonical(f, t) == SelectSeq(t, LAMBDA row : CanonicalName(SeqName(f, C(row))))

(* join_regions: chromosomes in order of first appearance (groupby sort=False), rows in table order;   *)
(* `assert gap > 0` between consecutive rows; gap < min_gap_size joins                                 *)
ChromOrder(t) == UniqSeq([k \in Idx(t) |-> C(t[k])], <<>>)
RECURSIVE JoinChrom(_, _, _, _, _)
JoinChrom(rows, k, ps, pe, gap) ==
    IF k > Len(rows) THEN << <<C(rows[1]), ps, pe, "">> >>
    ELSE IF S(rows[k]) - pe < gap THEN JoinChrom(rows, k + 1, ps, E(rows[k]), gap)
    ELSE << <<C(rows[1]), ps, pe, "">> >> \o JoinChrom(rows, k + 1, S(rows[k]), E(rows[k]), gap)
JoinRegions(t, gap) ==
    LET cs == ChromOrder(t) IN
    FlattenSeq([n \in 1..Len(cs) |-> LET rows == OnChrom(t, cs[n]) IN JoinChrom(rows, 2, S(rows[1]), E(rows[1]), gap)])
JoinAsserts(t) ==
    \E c \in Chroms(t) : LET rows == OnChrom(t, c) IN \E k \in 1..Len(rows)-1 : S(rows[k+1]) - E(rows[k]) <= 0

(* do_access up to the join: scan, drop contigs, subtract each exclude file (tabio.read sorts it) in turn *)
RECURSIVE SubtractFiles(_, _, _)
SubtractFiles(t, files, k) == IF k > Len(files) THEN t
                              ELSE SubtractFiles(SubtractMerged(t, SortRows(files[k])), files, k + 1)
BeforeJoin(r) == LET regs == GetRegions(r.fasta)
                     kept == IF r.skip THEN DropNonCanonical(r.fasta, regs) ELSE regs
                 IN SubtractFiles(kept, r.excl, 1)
ALayerErr(r) == r.op = "access" /\ JoinAsserts(BeforeJoin(r))
ALayer(r) == IF r.op = "regions" THEN GetRegions(r.fasta) ELSE JoinRegions(BeforeJoin(r), r.gap)
Drift(r)  == IF NoErr(r) THEN (ALayerErr(r) \/ r.out # ALayer(r)) ELSE ~ALayerErr(r)

(* ================================================================= known findings ===== *)
(* Repaired finding (kept as documentation): a blank line where no run is open (at the start of a sequence or   *)
(* right after an N) that is followed by an N, a header or the end of the file made the unrepaired scanner emit  *)
(* an empty region at the cursor ('>a\n\n>b\nAC\n' -> (a,0,0)); do_access then reported it or joined real     *)
(* regions across it.  BlankLineOutsideRun characterises exactly the inputs on which GetRegionsUnrepaired differs. *)
BlankLineOutsideRun(r) ==
    \E n \in 1..NSeq(r.fasta) :
        /\ r.op = "access" => ~Dropped(r, n)
        /\ LET ls == SeqLines(r.fasta, n)
               T  == ConcatRange(ls, 1, Len(ls))
           IN \E j \in 1..Len(ls) :
                 /\ ls[j] = <<>>
                 /\ LET c == Len(ConcatRange(ls, 1, j - 1))
                    IN (c = 0 \/ T[c] = NCode) /\ (c = Len(T) \/ T[c+1] = NCode)
KnownTriggers == {"BlankLineOutsideRun"}     \* repaired (known_findings.json: status fixed -- suppresses nothing); kept as a diagnostic label
TriggerHolds(t, r) ==
    CASE t = "BlankLineOutsideRun" -> BlankLineOutsideRun(r)
      [] OTHER -> FALSE
=============================================================================
