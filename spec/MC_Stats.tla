--------------------------- MODULE MC_Stats ---------------------------
(* Design check + enumerator for C19: every input of a small scope, one step computing the A-layer result      *)
(* (StatsCheck.ALayer: the cnvkit code case for case); invariant DesignOK = every P-layer clause holds on it.   *)
(* The dump of this run is replayed into the real cnvlib code (direction 1).                                    *)
(*   Fam = "wmed"   weighted median / weighted MAD over all value x weight vectors of length 1..MaxLen          *)
(*   Fam = "est"    the unweighted estimators + weighted sd, single calls and shift / scale pairs               *)
(*   Fam = "bw"     biweight location / midvariance                                                             *)
(*   Fam = "mode"   modal_location over all short vectors (with repeated values)                                    *)
(*   Fam = "smooth" rolling median and mirror padding over all short integer signals x widths                   *)
(*   Fam = "wing"   _width2wing over all lengths 1..MaxLen x widths                                             *)
(* The input record is assembled in the Call step (TLC computes initial states in one thread).                  *)
EXTENDS StatsCheck
CONSTANTS Fam,        \* which family of inputs
          MaxLen,     \* vectors / signals of length 1..MaxLen
          Vals,       \* values (grid units)
          Wts,        \* weights (weight units)
          Unit        \* grid units per 1.0 (values are k / Unit)

Seqs(S, n) == UNION {[1..k -> S] : k \in 1..n}
NoNaN(x) == [i \in 1..Len(x) |-> FALSE]
Blank == [op |-> "", est |-> "", kind |-> "single", U |-> Unit, v |-> <<>>, x |-> <<>>, nan |-> <<>>, WU |-> 1, w |-> <<>>,
          wx |-> <<>>, wnan |-> <<>>, wfine |-> FALSE, ws |-> 0, flag |-> FALSE, hasinit |-> FALSE, init |-> 0, c |-> 0, fn |-> 1, fd |-> 1, wn |-> 0, wd |-> 0]
(* par = <<flag, hasinit, wn, wd>>; shift pairs use c = 5 grid units, scale pairs the factor 2; initial = 1 grid unit *)
Mk(e, kind, v, w, par) ==
    [Blank EXCEPT !.op = IF kind = "single" THEN e ELSE e \o "." \o kind, !.est = e, !.kind = kind, !.v = v,
                  !.x = IF e \in Estimators THEN FxSeqOfGrid(v, Unit) ELSE <<>>,
                  !.nan = NoNaN(v), !.w = w, !.wx = FxSeqOfGrid(w, 1), !.wnan = NoNaN(w), !.flag = par[1], !.hasinit = par[2], !.init = 1,
                  !.c = 5, !.fn = 2, !.wn = par[3], !.wd = par[4]]

Widths == {<<2, 1>>, <<3, 1>>, <<6, 1>>, <<7, 1>>, <<8, 1>>, <<9, 1>>, <<11, 1>>, <<100, 1>>,
           <<1, 8>>, <<1, 2>>, <<3, 4>>, <<7, 8>>, <<127, 128>>}
BadWidths == {<<1, 1>>, <<0, 1>>, <<-3, 1>>, <<3, 2>>, <<5, 4>>}
NoPar == <<FALSE, FALSE, 0, 0>>
AllKinds == {"single", "shift", "scale"}

VARIABLES e, kind, v, w, par, ph, inp, res
vars == <<e, kind, v, w, par, ph, inp, res>>

Choose ==
    \/ /\ Fam = "wmed"
       /\ e \in {"wmedian", "wmad"}
       /\ kind \in IF e = "wmedian" THEN {"single", "shift"} ELSE {"single"}
       /\ v \in Seqs(Vals, MaxLen)
       /\ w \in [1..Len(v) -> Wts]
       /\ \E i \in 1..Len(w) : w[i] > 0
       /\ par = NoPar
    \/ /\ Fam = "est"
       /\ e \in {"mad", "iqr", "gapper", "qn", "mse", "wstd"}
       /\ kind \in IF e = "mse" THEN {"single"} ELSE AllKinds
       /\ v \in Seqs(Vals, MaxLen)
       /\ w \in IF e = "wstd" THEN [1..Len(v) -> Wts] ELSE {<<>>}
       /\ par \in IF e = "mad" THEN {NoPar, <<TRUE, FALSE, 0, 0>>}
                  ELSE IF e = "mse" THEN {NoPar, <<FALSE, TRUE, 0, 0>>} ELSE {NoPar}
    \/ /\ Fam = "bw"
       /\ e \in {"biloc", "bivar"}
       /\ kind \in IF e = "biloc" THEN {"single", "shift"} ELSE {"single"}
       /\ v \in Seqs(Vals, MaxLen)
       /\ w = <<>>
       /\ par \in IF e = "bivar" THEN {NoPar, <<FALSE, TRUE, 0, 0>>} ELSE {NoPar}
    \/ /\ Fam = "mode"             \* small multisets with repeats: multiplicity decides the density peak
       /\ e = "mode"
       /\ kind \in {"single", "shift"}
       /\ v \in Seqs(Vals, MaxLen)
       /\ w = <<>>
       /\ par = NoPar
    \/ /\ Fam = "smooth"
       /\ e \in {"rollmed", "pad"}
       /\ kind = "single"
       /\ v \in Seqs(Vals, IF e = "pad" THEN IntMin(MaxLen, 4) ELSE MaxLen)
       /\ w = <<>>
       /\ par \in IF e = "pad" THEN {<<FALSE, FALSE, k, 0>> : k \in 1..Len(v)}
                  ELSE {<<FALSE, FALSE, x[1], x[2]>> : x \in Widths}
    \/ /\ Fam = "wing"
       /\ e = "wing" /\ kind = "single"
       /\ v \in {[i \in 1..n |-> 0] : n \in 1..MaxLen}
       /\ w = <<>>
       /\ par \in {<<FALSE, FALSE, x[1], x[2]>> : x \in Widths \cup BadWidths}

Init == Choose /\ ph = "call" /\ inp = Blank /\ res = BlankOut
Call == /\ ph = "call" /\ ph' = "ret"
        /\ inp' = Mk(e, kind, v, w, par)
        /\ res' = ALayer(inp')
        /\ UNCHANGED <<e, kind, v, w, par>>
Next == Call
Spec == Init /\ [][Next]_vars
Rec == inp @@ res

(* design-level statement: the algorithm as modelled satisfies every clause of the property, wherever the premise holds *)
DesignOK == (ph = "ret" /\ Premise(inp)) => \A c \in Clauses(inp.op) : Holds(c, Rec)
(* what the unrepaired code would have produced -- kept to show the two defects in the model *)
DesignOldWMedian == (ph = "ret" /\ inp.op = "wmedian") =>
    LET old == IF Len(inp.v) = 1 THEN Xs(inp)[1] ELSE WMedianOld(Xs(inp), Ws(inp))
    IN Holds("wmedian_halfweight", [Rec EXCEPT !.out = old])
DesignOldBiloc == (ph = "ret" /\ inp.op = "biloc") =>
    LET old == IF Len(inp.v) = 1 THEN Xs(inp)[1] ELSE BilocOld(Xs(inp))
    IN Holds("biloc_formula", [Rec EXCEPT !.out = old])
=============================================================================
