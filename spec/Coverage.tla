--------------------------- MODULE Coverage ---------------------------
(* C09: `coverage` reports the mean per-base depth of the counted reads in every bin.            *)
(*                                                                                               *)
(* All integers.  A read is [c, pos, cig, dup, sec, unmap, qcfail, mapq]; cig is a sequence of   *)
(* <<op, len>> with the BAM operation codes (0 M, 1 I, 2 D, 3 N, 4 S, 5 H, 6 P, 7 =, 8 X).       *)
(* A bin is <<c, s, e, name>>; an output row is [c, s, e, name, depth (Fx), pow (Fx), log2u].    *)
(* A record is one (BAM, BED, algorithm, mapq cut-off) with the tables produced by several       *)
(* (processes, chunk size) settings: runs[k] = [procs, chunk, rows, chunks, err].                *)
EXTENDS Num, FiniteSets, FiniteSetsExt

(* ------------------------------------------------------------------ P-layer definitions *)
AlignedOp(op) == op \in {0, 7, 8}              \* M, =, X: consume query and reference
RefOnlyOp(op) == op \in {2, 3}                 \* D, N: consume reference only
RECURSIVE Blocks(_, _, _)
Blocks(cig, k, p) ==                           \* aligned reference blocks [lo, hi) of a read starting at p
    IF k > Len(cig) THEN <<>>
    ELSE LET op == cig[k][1]  n == cig[k][2] IN
         IF AlignedOp(op) THEN <<<<p, p + n>>>> \o Blocks(cig, k + 1, p + n)
         ELSE IF RefOnlyOp(op) THEN Blocks(cig, k + 1, p + n)
         ELSE Blocks(cig, k + 1, p)
(* "reads flagged duplicate, secondary, unmapped or QC-fail, or with mapping quality below the cut-off, are not counted" *)
Counted(rd, minq) == ~rd.dup /\ ~rd.sec /\ ~rd.unmap /\ ~rd.qcfail /\ rd.mapq >= minq
IMax2(x, y) == IF x > y THEN x ELSE y
IMin2(x, y) == IF x < y THEN x ELSE y
Overlap(b, s, e) == IMax2(0, IMin2(b[2], e) - IMax2(b[1], s))
SumOver(seq, F(_)) == ISum([k \in 1..Len(seq) |-> F(seq[k])])
BasesOfRead(rd, s, e) == LET bl == Blocks(rd.cig, 1, rd.pos) IN SumOver(bl, LAMBDA b : Overlap(b, s, e))
(* "aligned bases of counted reads that fall inside the bin" *)
BasesInBin(reads, c, s, e, minq) ==
    SumOver(reads, LAMBDA rd : IF rd.c = c /\ Counted(rd, minq) THEN BasesOfRead(rd, s, e) ELSE 0)
HasIndelOrSkip(rd) == \E k \in 1..Len(rd.cig) : rd.cig[k][1] \in {1, 2, 3}

NullLog2U == -20000000         \* params.NULL_LOG2_COVERAGE = -20, in units of 10^-6

(* one output row against the bin it claims to be *)
RowOK(reads, minq, row) ==
    LET len == row.e - row.s
        bases == IF len > 0 THEN BasesInBin(reads, row.c, row.s, row.e, minq) ELSE 0
        d == FxObs(row.depth)
    IN IF bases = 0
       THEN ZIsZero(d) /\ row.log2u = NullLog2U                                  \* "depth 0 and log2 -20"
       ELSE /\ ZLe(ZAbs(ZSub(ZMulInt(d, len), FxFromInt(bases))), ZFromInt(1000 * len))   \* depth = bases / length (1e-9)
            /\ FxClose(FxObs(row.pow), d, FxTol9)                               \* log2 = log2(depth): 2^log2 = depth

Key(x) == <<x.c, x.s, x.e, x.name>>
BinKey(b) == <<b[1], b[2], b[3], b[4]>>
CountOf(seq, key, K(_)) == Cardinality({k \in 1..Len(seq) : K(seq[k]) = key})
(* "each output row keeps its bin's coordinates and name": rows and bins are the same multiset *)
SameBins(bins, rows) ==
    /\ Len(rows) = Len(bins)
    /\ \A k \in 1..Len(bins) : CountOf(rows, BinKey(bins[k]), Key) = CountOf(bins, BinKey(bins[k]), BinKey)

(* to_chunks: the non-comment lines, in order, cut into parts of `size` lines (the last may be shorter, none empty) *)
RECURSIVE Concat(_)
Concat(ss) == IF ss = <<>> THEN <<>> ELSE Head(ss) \o Concat(Tail(ss))
ChunksOK(lines, size, chunks) ==
    LET body == SelectSeq(lines, LAMBDA ln : ln >= 0) IN     \* comment lines are encoded as negative ids
    /\ Concat(chunks) = body
    /\ \A k \in 1..Len(chunks) : Len(chunks[k]) >= 1 /\ Len(chunks[k]) <= size
    /\ \A k \in 1..Len(chunks)-1 : Len(chunks[k]) = size

(* ------------------------------------------------------------------ A-layer *)
(* pileup: samtools bedcov lists the BED lines in file order; count: regions are read with read_auto, i.e.  *)
(* sorted by (chromosome order given by the harness as `ord`, start, end), stable                           *)
RowCoordLess(x, y, ord) == \/ ord[x[1]] < ord[y[1]]
                           \/ ord[x[1]] = ord[y[1]] /\ x[2] < y[2]
                           \/ ord[x[1]] = ord[y[1]] /\ x[2] = y[2] /\ x[3] < y[3]
RECURSIVE InsBin(_, _, _)
InsBin(sorted, b, ord) == IF sorted = <<>> THEN <<b>>
                          ELSE IF RowCoordLess(b, Head(sorted), ord) THEN <<b>> \o sorted
                          ELSE <<Head(sorted)>> \o InsBin(Tail(sorted), b, ord)
RECURSIVE SortBinsFrom(_, _, _)
SortBinsFrom(t, acc, ord) == IF t = <<>> THEN acc ELSE SortBinsFrom(Tail(t), InsBin(acc, Head(t), ord), ord)
ExpectedOrder(r) == IF r.bycount THEN SortBinsFrom(r.bins, <<>>, r.ord) ELSE r.bins

(* ------------------------------------------------------------------ clauses *)
Clauses(op) == {"cov_noerr", "cov_rows_keep_bins", "cov_depth_is_bases_over_length", "cov_same_for_all_procs_and_chunks",
                "cov_chunks_partition", "cov_pileup_equals_count"}

NoErr(r) == \A k \in 1..Len(r.runs) : r.runs[k].err = ""
Holds(c, r) ==
    CASE c = "cov_noerr" -> NoErr(r)
      [] c = "cov_rows_keep_bins" -> NoErr(r) => \A k \in 1..Len(r.runs) : SameBins(r.bins, r.runs[k].rows)
      [] c = "cov_depth_is_bases_over_length" ->
            \* judged on the first run; the other runs must equal it (cov_same_for_all_procs_and_chunks)
            NoErr(r) => \A j \in 1..Len(r.runs[1].rows) : RowOK(r.reads, r.minq, r.runs[1].rows[j])
      [] c = "cov_same_for_all_procs_and_chunks" ->
            NoErr(r) => \A k \in 2..Len(r.runs) : r.runs[k].rows = r.runs[1].rows
      [] c = "cov_chunks_partition" ->
            NoErr(r) => \A k \in 1..Len(r.runs) : r.runs[k].chunk > 0 => ChunksOK(r.lines, r.runs[k].chunk, r.runs[k].chunks)
      [] c = "cov_pileup_equals_count" ->      \* "the pileup and --count algorithms give the same depths on reads without indels"
            (NoErr(r) /\ r.other # <<>> /\ \A k \in 1..Len(r.reads) : ~HasIndelOrSkip(r.reads[k])) =>
                \A j \in 1..Len(r.other) : \E i \in 1..Len(r.runs[1].rows) :
                    /\ Key(r.other[j]) = Key(r.runs[1].rows[i])
                    /\ FxClose(FxObs(r.other[j].depth), FxObs(r.runs[1].rows[i].depth), FxTol9)

(* premise: bins on contigs of the BAM with non-negative coordinates; the pileup algorithm is only claimed on reads *)
(* without indels/skips (samtools counts deleted bases in the pileup depth)                                         *)
Premise(r) ==
    /\ \A k \in 1..Len(r.bins) : r.bins[k][2] >= 0
    /\ ~r.bycount => \A k \in 1..Len(r.reads) : ~HasIndelOrSkip(r.reads[k])

Drift(r) == NoErr(r) /\
    LET exp == ExpectedOrder(r)                                   \* evaluated once (LET values are cached)
        expKeys == [j \in 1..Len(exp) |-> BinKey(exp[j])]
    IN \E k \in 1..Len(r.runs) : [j \in 1..Len(r.runs[k].rows) |-> Key(r.runs[k].rows[j])] # expKeys
KnownTriggers == {}
TriggerHolds(t, r) == FALSE
=============================================================================
