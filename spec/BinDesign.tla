--------------------------- MODULE BinDesign ---------------------------
(* X01 -- end-to-end composition of the bin-design pipeline                                              *)
(*        access -> target -> antitarget -> reference --flat                                              *)
(* (cnvlib.access.do_access, cnvlib.target.do_target, cnvlib.antitarget.do_antitarget,                     *)
(*  cnvlib.reference.do_reference_flat), the first half of the pipeline of DESIGN 3.1, composed on one     *)
(* genome: each step receives the REAL output of the step before it.                                      *)
(*                                                                                                       *)
(* One record r is one run of the whole chain (op = "pipeline"):                                          *)
(*   inputs   r.names[c]   name of contig c as character codes (ids in natural sort order)                 *)
(*            r.genome     the FASTA, one entry [c, runs] per sequence in file order; runs is the          *)
(*                         run-length form of the sequence text: <<kind, length>>, kind 1 = a run of 'N',  *)
(*                         kind 0 = a run of any other characters (the harness *generates* the genome in   *)
(*                         this form and renders the FASTA text from it, at some line width)               *)
(*            r.excl       exclude files (tables), r.gap = min_gap_size, r.skip = skip_noncanonical        *)
(*            r.baits      bait table, r.split, r.an/r.ad = average target size (rational)                 *)
(*            r.avg, r.min antitarget average / minimum size (min 0 = not given), r.hapx = male reference  *)
(*            r.chain      "files": each table reaches the next step through a BED file as with the CLI,          *)
(*                         "memory": as an object, as cnvlib.batch does (r.order: Access / Target order; no effect) *)
(*            r.pad, r.telo the 500-base margin and the 150000-base telomere guess (constants of the       *)
(*                         package; an abstract Pad / Telo in the design check whose grid unit is 500/Pad  *)
(*                         real bases)                                                                     *)
(*   outputs  r.access / r.targets / r.antitargets (tables <<c, s, e, g>>), r.reference (records            *)
(*            [c, s, e, g, l4 = 4 * log2, lok]), r.*_err (exception text, "" = none), r.ran_* (was the     *)
(*            step attempted: a step is attempted iff every step before it returned)                       *)
(*                                                                                                       *)
(* The step modules are reused through named instances (they define clashing Clauses/Holds/...):          *)
(*   Intervals (tables, base sets), Access + ContigNames (C13), Bins (C12), Reference (C05).                 *)
(*                                                                                                       *)
(* P-layer: only what the package documents (doc/pipeline.rst, doc/quickstart.rst, docstrings, CLI help)   *)
(*          and the listed properties C12 / C13 / C05 for the single steps; each clause quotes its source.   *)
(*   step clauses  acc_* tgt_* anti_* flat_* : the step's statement on the REAL output of the step before   *)
(*   e2e_* clauses : the same partition statements *through the composition*: final outputs against the     *)
(*                   original inputs (FASTA runs, exclude files, baits), nothing in between is trusted.     *)
(* A-layer: the code's algorithm per step (Access.tla / Bins.tla / Reference.tla operators), incl. the      *)
(*          truthiness test `if accessible:` of get_antitargets.  Disagreement is MODEL-DRIFT only.          *)
EXTENDS Naturals, Integers, Sequences, FiniteSets, SequencesExt, FiniteSetsExt, Functions, TLC

IV == INSTANCE Intervals
CN == INSTANCE ContigNames
AC == INSTANCE Access
BN == INSTANCE Bins
RF == INSTANCE Reference

C(x) == IV!C(x)
S(x) == IV!S(x)
E(x) == IV!E(x)
G(x) == IV!G(x)
Idx(t) == IV!Idx(t)
Chroms(t) == IV!Chroms(t)
OnChrom(t, c) == IV!OnChrom(t, c)
Covers(t, c, x) == IV!Covers(t, c, x)
BreaksOn(ts, c) == IV!BreaksOn(ts, c)
NonEmptyRows(t) == BN!NonEmptyRows(t)
Pairs(t) == [k \in Idx(t) |-> <<S(t[k]), E(t[k])>>]

(* ================================================================= the genome ========= *)
RunLens(g) == [k \in 1..Len(g.runs) |-> g.runs[k][2]]
RunStart(g, k) == FoldLeft(LAMBDA acc, x : acc + x, 0, SubSeq(RunLens(g), 1, k - 1))
ContigLen(g) == FoldLeft(LAMBDA acc, x : acc + x, 0, RunLens(g))
(* "the regions between" the spans of 'N': the maximal runs of non-N characters, 0-based half-open *)
NonNRows(g) == LET ks == SelectSeq([k \in 1..Len(g.runs) |-> k], LAMBDA k : g.runs[k][1] = 0)
               IN [j \in 1..Len(ks) |-> <<g.c, RunStart(g, ks[j]), RunStart(g, ks[j]) + g.runs[ks[j]][2], "">>]
MaximalRuns(g) == IV!MergeSweep(NonNRows(g), 0)          \* (abutting runs of the same kind are one run)
RunsTable(r) == FlattenSeq([k \in 1..Len(r.genome) |-> MaximalRuns(r.genome[k])])      \* in file order
GenomeContigs(r) == {r.genome[k].c : k \in 1..Len(r.genome)}
AllExcl(r) == FlattenSeq(r.excl)

(* ------------------------------------------------------------------ names *)
txt_chr == <<99, 104, 114>>
HasChr(n) == CN!StartsWithSub(n, txt_chr)
Core(n) == IF HasChr(n) THEN SubSeq(n, 4, Len(n)) ELSE n
IsAutoName(n) == Len(Core(n)) >= 1 /\ \A k \in 1..Len(Core(n)) : CN!IsDigitCode(Core(n)[k])    \* (chr)?[0-9]+
IsXName(n) == Core(n) = <<88>>
IsYName(n) == Core(n) = <<89>>
Style(r) == IF HasChr(r.names[1]) THEN "chr" ELSE ""
(* chromosome id in Reference.tla's numbering (1..22 autosomes, 23 = X, 24 = Y): only the class matters here *)
KId(n) == IF IsXName(n) THEN 23 ELSE IF IsYName(n) THEN 24 ELSE 1

(* ================================================================= P-layer: access ==== *)
(* doc/pipeline.rst (access): "computes the locations of the accessible sequence regions for a given reference       *)
(* genome based on these masked-out sequences, treating long spans of 'N' characters as the inaccessible regions and  *)
(* outputting the coordinates of the regions between them.  Other known unmappable, variable, or poorly sequenced     *)
(* regions can be excluded with the -x/--exclude option."  cnvkit.py access -h: "-s Minimum gap size between          *)
(* accessible sequence regions. Regions separated by less than this distance will be joined together."               *)
(* access.drop_noncanonical_contigs: "Drop contigs with noncanonical names."   (= the statement of C13)              *)
Dropped(r, c) == r.skip /\ CN!NonCanonicalName(r.names[c])
ExpectedAccessOn(r, runs, ex, c) ==
    IF Dropped(r, c) THEN <<>>
    ELSE LET p == AC!JoinP(AC!Stretches(runs, ex, c), r.gap) IN [k \in 1..Len(p) |-> <<c, p[k][1], p[k][2], "">>]
(* the access table the documentation specifies for this genome, contigs in id order *)
ExpectedAccess(r) ==
    LET runs == RunsTable(r)
        ex == AllExcl(r)
        cs == SetToSortSeq(GenomeContigs(r), <)
    IN FlattenSeq([k \in 1..Len(cs) |-> ExpectedAccessOn(r, runs, ex, cs[k])])

(* ================================================================= the step records ==== *)
(* do_target(baits, annotate = None, short_names = False, split, avg): a record of Bins.tla *)
TargetRec(r) == [op |-> "target", a |-> r.baits, b |-> <<>>, split |-> r.split, an |-> r.an, ad |-> r.ad,
                 short |-> FALSE, annot |-> FALSE, base |-> r.targets, base_err |-> r.targets_err,
                 out |-> r.targets, err |-> r.targets_err, tok |-> <<>>, out_tok |-> <<>>]
(* do_antitarget(targets, access, avg, min) on the REAL outputs of the two steps before it *)
AntiRec(r) == [op |-> "antitarget", a |-> r.targets, b |-> r.access, has_access |-> TRUE, avg |-> r.avg, min |-> r.min,
               pad |-> r.pad, telo |-> r.telo, names |-> r.names, out |-> r.antitargets, err |-> r.anti_err]
(* the same call as the code sees it: an empty access table is falsy (`if accessible:`) -> guessed extents *)
AntiRecA(r) == [AntiRec(r) EXCEPT !.has_access = r.access # <<>>]
(* through the composition: the antitargets against the ORIGINAL inputs -- the non-empty baits stand for the targets  *)
(* (the targets cover exactly their union) and the access table is the one the documentation specifies for the genome *)
AntiRecP(r) == [AntiRec(r) EXCEPT !.a = NonEmptyRows(r.baits), !.b = ExpectedAccess(r)]

AccDone(r)  == r.ran_access /\ r.access_err = ""
TgtDone(r)  == r.ran_target /\ r.targets_err = ""
AntiDone(r) == r.ran_anti /\ r.anti_err = ""
RefDone(r)  == r.ran_ref /\ r.ref_err = ""
SharesContig(a, b) == Chroms(a) \cap Chroms(b) # {}
(* the antitarget step speaks about a non-empty target table and an access table naming one of its contigs (the      *)
(* package refuses disjoint name sets: "Chromosome names do not match between files")                                *)
AntiStepScope(r) == r.ran_anti /\ r.targets # <<>> /\ IV!PositiveW(r.targets)
                    /\ (r.access # <<>> => SharesContig(r.targets, r.access))
AntiE2EScope(r) == r.ran_anti /\ (ExpectedAccess(r) # <<>> => SharesContig(NonEmptyRows(r.baits), ExpectedAccess(r)))

(* ================================================================= P-layer: flat reference = *)
RefRow(o) == <<o.c, o.s, o.e, o.g>>
RefRows(r) == [p \in 1..Len(r.reference) |-> RefRow(r.reference[p])]
Count(t, x) == Cardinality({k \in Idx(t) : t[k] = x})
(* "exactly the target and antitarget bins": the same rows (gene names included) as a multiset, in genomic order *)
FlatBinsOK(rows, tb, ab) ==
    LET all == tb \o ab IN
    /\ Len(rows) = Len(all)
    /\ \A k \in 1..Len(rows) - 1 : ~RF!CoordLt(rows[k + 1], rows[k])
    /\ \A x \in {rows[k] : k \in Idx(rows)} \cup {all[k] : k \in Idx(all)} : Count(rows, x) = Count(all, x)
(* the level the documentation fixes, by the name of the contig: 0 on an autosome, -1 on Y, -1 on X iff male reference *)
LevelKnown(n) == IsAutoName(n) \/ IsXName(n) \/ IsYName(n)
FlatWant(n, hapx) == RF!FlatLevel(<<KId(n), 0, 1, "">>, hapx)
(* cnary.expect_flat_log2 as coded (every other contig: 0) *)
FlatWantA(r, o) == RF!FlatLevelA(Style(r), <<KId(r.names[o.c]), o.s, o.e, o.g>>, r.hapx)

(* ================================================================= clauses ============ *)
AccClauses  == {"acc_noerr", "acc_known_contigs", "acc_exact", "acc_nonempty_separated"}
TgtClauses  == {"tgt_noerr", "tgt_unsplit_unchanged", "tgt_split_disjoint_ordered", "tgt_split_covers_union",
                "tgt_split_equal_bins"}
AntiClauses == BN!AntiClauses
(* e2e clause -> the clause of Bins.tla it instantiates on AntiRecP *)
E2EMap == { <<"e2e_on_access_contigs",    "anti_on_access_contigs">>,
            <<"e2e_inside_shrunk_access", "anti_inside_shrunk_access">>,
            <<"e2e_clear_of_baits",       "anti_clear_of_targets">>,
            <<"e2e_accounts_targeted",    "anti_covers_free_targeted">>,
            <<"e2e_accounts_canonical",   "anti_covers_free_canonical">> }
E2EAnti == {p[1] : p \in E2EMap}
BNName(c) == (CHOOSE p \in E2EMap : p[1] = c)[2]
E2EOther == {"e2e_targets_antitargets_disjoint", "e2e_antitargets_in_accessible_sequence"}
FlatClauses == {"flat_noerr", "flat_bins", "flat_log2", "flat_gc_columns", "e2e_ref_antitargets_apart",
                "e2e_ref_genes_from_baits"}
Clauses(op) == IF op = "pipeline" THEN AccClauses \cup TgtClauses \cup AntiClauses \cup E2EAnti \cup E2EOther \cup FlatClauses
               ELSE {}

(* The two open findings of C12 (known_findings.json: F-C12-no-canonical-target, F-C12-min-above-split-bin) are      *)
(* excluded here by their own trigger predicates: the clause they break does not apply to a record that satisfies     *)
(* the trigger (they are C12's to report, not this module's).                                                        *)
ExcludedByC12Finding(bnclause, rec) ==
    \/ bnclause = "anti_covers_free_canonical" /\ BN!NoCanonicalTarget(rec)
    \/ bnclause = "anti_at_least_min" /\ BN!MinAboveSplitBin(rec)

Applies(c, r) ==
    CASE c = "acc_noerr" -> r.ran_access
      [] c \in AccClauses \ {"acc_noerr"} -> AccDone(r)
      [] c = "tgt_noerr" -> r.ran_target
      [] c \in TgtClauses \ {"tgt_noerr"} -> TgtDone(r)
      [] c = "anti_noerr" -> AntiStepScope(r)
      [] c \in AntiClauses \ {"anti_noerr"} -> /\ AntiStepScope(r) /\ r.anti_err = ""
                                              /\ ~ExcludedByC12Finding(c, AntiRec(r))
                                              /\ ~ExcludedByC12Finding(c, AntiRecA(r))    \* (the call as the code sees it)
      [] c \in E2EAnti -> AntiE2EScope(r) /\ r.anti_err = "" /\ ~ExcludedByC12Finding(BNName(c), AntiRecP(r))
      [] c \in E2EOther -> AntiDone(r)
      [] c = "flat_noerr" -> r.ran_ref
      [] c = "flat_gc_columns" -> RefDone(r) /\ r.ref_fa
      [] c \in FlatClauses \ {"flat_noerr", "flat_gc_columns"} -> RefDone(r)
      [] OTHER -> FALSE

Claim(c, r) ==
    CASE c \in {"acc_noerr"} -> r.access_err = ""
         (* rows are reported only for sequences of the FASTA *)
      [] c = "acc_known_contigs" -> Chroms(r.access) \subseteq GenomeContigs(r)
         (* the non-N runs, minus every exclude file, joined iff the gap is smaller than the minimum, non-canonical    *)
         (* contigs dropped when asked (sources above ExpectedAccess)                                                  *)
      [] c = "acc_exact" ->
            LET runs == RunsTable(r)  ex == AllExcl(r) IN
            \A n \in GenomeContigs(r) : Pairs(OnChrom(r.access, n)) = Pairs(ExpectedAccessOn(r, runs, ex, n))
         (* C13: "Every reported region is non-empty, regions of a sequence are sorted and separated by at least one base" *)
      [] c = "acc_nonempty_separated" ->
            IV!PositiveW(r.access) /\ \A n \in Chroms(r.access) : AC!SeparatedOn(r.access, n)
         (* ---- target: C12 / do_target ("Drop zero-width regions"; pipeline.rst: "the --split option divides the     *)
         (* larger regions so that the average bin size after dividing is close to the size specified by              *)
         (* --average-size ... otherwise, the provided target BED file will be used as-is"; skgenome.subdivide:         *)
         (* "Split regions into equal-sized subregions of about this size")                                           *)
      [] c \in TgtClauses -> BN!Holds(c, TargetRec(r))
         (* ---- antitarget on the real targets and the real access table: C12 / get_antitargets docstring /           *)
         (* pipeline.rst (antitarget): 'CNVkit will then compute "antitarget" bins only within the accessible genomic   *)
         (* regions specified in the "access" file'; 'The generated off-target bins are given the label "Antitarget"'  *)
      [] c \in AntiClauses -> BN!Holds(c, AntiRec(r))
         (* ---- the same statements through the composition (original FASTA / exclude files / baits) *)
      [] c \in E2EAnti -> BN!Holds(BNName(c), AntiRecP(r))
         (* pipeline.rst (antitarget): "derive a BED file off-target/'antitarget' regions"; get_antitargets: "Generate  *)
         (* antitarget intervals between/around target intervals": no antitarget bin shares a base with a target bin   *)
      [] c = "e2e_targets_antitargets_disjoint" ->
            \A j \in Idx(r.antitargets), k \in Idx(r.targets) :
                LET x == r.antitargets[j]  y == r.targets[k] IN
                C(x) = C(y) => (E(x) <= S(y) \/ E(y) <= S(x))
         (* pipeline.rst (access): "These regions cannot be mapped by resequencing, so CNVkit avoids them when          *)
         (* calculating the antitarget bin locations"; "-s ... ignores short regions that would otherwise be excluded,  *)
         (* allowing larger antitarget bins to overlap them": every base of an antitarget bin is a non-N, non-excluded  *)
         (* base of a kept sequence of the FASTA, or lies in a gap smaller than the minimum gap size                   *)
      [] c = "e2e_antitargets_in_accessible_sequence" ->
            LET runs == RunsTable(r)  ex == AllExcl(r)  out == r.antitargets IN
            /\ Chroms(out) \subseteq {n \in GenomeContigs(r) : ~Dropped(r, n)}
            /\ \A n \in Chroms(out) :
                 LET d == AC!Stretches(runs, ex, n) IN
                 \A x \in BreaksOn({runs, ex, out}, n) :
                    Covers(out, n, x) =>
                       \/ Covers(runs, n, x) /\ ~Covers(ex, n, x)
                       \/ \E k \in 1..Len(d) - 1 : E(d[k]) <= x /\ x < S(d[k + 1]) /\ S(d[k + 1]) - E(d[k]) < r.gap
         (* ---- flat reference.  pipeline.rst (reference, "With no control samples"): 'create a "flat" reference of    *)
         (* neutral copy number (i.e. log2 0.0) for each probe from the target and antitarget interval files';          *)
         (* quickstart.rst: "The coordinates of the target and antitarget bins, the gene names for the targets ... are  *)
         (* automatically extracted from the reference .cnn file"                                                      *)
      [] c = "flat_noerr" -> r.ref_err = ""
      [] c = "flat_bins" -> FlatBinsOK(RefRows(r), r.targets, r.antitargets)
         (* expect_flat_log2: "a neutral copy ratio at each autosome (log2 = 0.0) and sex chromosomes based on whether   *)
         (* the reference is male"; sex.rst: "By default ... relative to a diploid X chromosome and haploid Y ...        *)
         (* Chromosome Y is always treated as haploid in either case"; reference -y: "the reference chrX average is -1". *)
         (* Nothing is said about other contigs (chrM, alternative contigs): no claim there.                            *)
      [] c = "flat_log2" -> \A p \in 1..Len(r.reference) :
                                LET o == r.reference[p]  n == r.names[o.c] IN
                                LevelKnown(n) => (o.lok /\ o.l4 = 4 * FlatWant(n, r.hapx))
         (* pipeline.rst (reference): "If given a reference genome (-f option), also calculate the GC content and       *)
         (* repeat-masked proportion of each region" (the values themselves are C05's; here: present, within [0, 1])    *)
      [] c = "flat_gc_columns" -> r.hasgc /\ \A p \in 1..Len(r.reference) :
                                LET o == r.reference[p] IN o.gc6 >= 0 /\ o.gc6 <= 1000000 /\ o.rm6 >= 0 /\ o.rm6 <= 1000000
         (* targets and antitargets stay disjoint in the final product: no row named Antitarget shares a base with      *)
         (* another kind of row                                                                                        *)
      [] c = "e2e_ref_antitargets_apart" ->
            LET rows == RefRows(r) IN
            \A j, k \in Idx(rows) :
                (G(rows[j]) = "Antitarget" /\ G(rows[k]) # "Antitarget" /\ C(rows[j]) = C(rows[k]))
                    => (E(rows[j]) <= S(rows[k]) \/ E(rows[k]) <= S(rows[j]))
         (* quickstart.rst: targets that "look like  chr1 1508981 1509154 SSU72" need no annotation: the reference       *)
         (* carries "the gene names for the targets" -- where all baits of the merged bait region a target row lies in    *)
         (* (overlapping / abutting baits are one region; --split joins their labels) have one and the same label, the    *)
         (* row has that label                                                                                          *)
      [] c = "e2e_ref_genes_from_baits" ->
            LET rows == RefRows(r)  ne == NonEmptyRows(r.baits)  mt == IV!MergeSweep(ne, 0) IN
            \A k \in Idx(rows) : G(rows[k]) # "Antitarget" =>
                \A m \in Idx(mt) :
                    (C(mt[m]) = C(rows[k]) /\ S(mt[m]) <= S(rows[k]) /\ E(rows[k]) <= E(mt[m])) =>
                        LET labs == {G(ne[j]) : j \in {i \in Idx(ne) : C(ne[i]) = C(mt[m]) /\ S(mt[m]) <= S(ne[i]) /\ E(ne[i]) <= E(mt[m])}}
                        IN Cardinality(labs) = 1 => G(rows[k]) \in labs

Holds(c, r) == Applies(c, r) => Claim(c, r)

(* ================================================================= premise ============ *)
Distinct(s) == \A i, j \in 1..Len(s) : i # j => s[i] # s[j]
Premise(r) ==
    /\ r.op = "pipeline"
    /\ Len(r.names) >= 1 /\ Distinct(r.names)
    /\ \A n \in 1..Len(r.names) : Len(r.names[n]) >= 1 /\ HasChr(r.names[n]) = HasChr(r.names[1])    \* one naming style
    /\ Len(r.genome) >= 1
    /\ \A k \in 1..Len(r.genome) :
          /\ r.genome[k].c \in 1..Len(r.names)
          /\ \A j \in 1..Len(r.genome[k].runs) : r.genome[k].runs[j][1] \in {0, 1} /\ r.genome[k].runs[j][2] >= 1
    /\ \A j, k \in 1..Len(r.genome) : j # k => r.genome[j].c # r.genome[k].c
    /\ \A k \in 1..Len(r.excl) : /\ IV!PositiveW(r.excl[k]) /\ IV!NonNeg(r.excl[k])
                                 /\ Chroms(r.excl[k]) \subseteq 1..Len(r.names)
    /\ r.gap >= 0
    (* baits as tabio.read delivers them (sorted, start <= end), at least one of them non-empty; no bait is labelled   *)
    (* like an off-target bin                                                                                         *)
    /\ BN!WellFormed(r.baits) /\ Chroms(r.baits) \subseteq 1..Len(r.names)
    /\ NonEmptyRows(r.baits) # <<>>
    /\ \A k \in Idx(r.baits) : G(r.baits[k]) # "Antitarget"
    /\ r.an >= 1 /\ r.ad >= 1 /\ r.avg >= 1 /\ r.min >= 0 /\ r.pad >= 0 /\ r.telo >= 0

(* ================================================================= A-layer ============ *)
(* do_access after the line scanner (the scanner itself is C13's: Access.tla models it line by line; here its output  *)
(* is the maximal runs): drop contigs, subtract each exclude file, join                                              *)
AccessA(r) ==
    LET regs == RunsTable(r)
        kept == IF r.skip THEN SelectSeq(regs, LAMBDA row : CN!CanonicalName(r.names[C(row)])) ELSE regs
    IN AC!JoinRegions(AC!SubtractFiles(kept, r.excl, 1), r.gap)
(* do_target: drop zero-width rows, subdivide(avg, 0) if asked.  Bins.ATarget with one refinement: the package's default  *)
(* average 200 / 0.75 is not a double (266.666...), so for a merged bait whose length / (800/3) is exactly k + 1/2         *)
(* (lengths 400, 1200, 2000, ...) the double quotient lands on either side of the tie (400 -> 1.5 -> 2 bins, 2000 ->       *)
(* 7.4999999999999991 -> 7 bins); IEEE division is not modelled: there the A-layer takes whichever of k, k + 1 was observed *)
NBinsA(span, an, ad, obs) ==
    LET q == (span * ad) \div an
        rem == (span * ad) % an
        n0 == IF an = 800 /\ ad = 3 /\ 2 * rem = an /\ obs \in {q, q + 1} THEN obs ELSE IV!RoundHalfEven(span * ad, an)
    IN IF n0 = 0 THEN 1 ELSE n0
SplitRowA(row, an, ad, obs) ==
    LET span == E(row) - S(row)
        n == NBinsA(span, an, ad, obs)
    IN IF n = 1 THEN <<row>>
       ELSE [m \in 1..n |-> <<C(row), S(row) + BN!MulDiv(m - 1, span, n),
                               IF m = n THEN E(row) ELSE S(row) + BN!MulDiv(m, span, n), G(row)>>]
InsideCount(t, row) == Cardinality({k \in Idx(t) : C(t[k]) = C(row) /\ S(row) <= S(t[k]) /\ E(t[k]) <= E(row)})
TargetA(r) == LET ne == NonEmptyRows(r.baits) IN
              IF r.split THEN LET mt == IV!MergeSweep(ne, 0)
                              IN FlattenSeq([n \in Idx(mt) |-> SplitRowA(mt[n], r.an, r.ad, InsideCount(r.targets, mt[n]))])
              ELSE ne
(* cnvkit.py antitarget -g FILE reads the access table back with tabio.read_auto, which sorts it; an API caller (batch)  *)
(* hands the do_access result over as it is (sequences in FASTA order)                                                  *)
AntiRecIn(r) == [AntiRecA(r) EXCEPT !.b = IF r.chain = "files" THEN IV!SortRows(r.access) ELSE r.access]
AntiErrA(r) == BN!AAntiErr(AntiRecIn(r))
AntiA(r) == BN!AAnti(AntiRecIn(r))
RefRowsA(r) == RF!RfSortRows(r.targets \o r.antitargets)
Drift(r) ==
    \/ AccDone(r) /\ IV!SortRows(r.access) # IV!SortRows(AccessA(r))
    \/ TgtDone(r) /\ ~BN!BinsNear(r.targets, TargetA(r))
    \/ (r.ran_anti /\ r.targets # <<>>) /\
          IF r.anti_err = "" THEN (AntiErrA(r) \/ ~BN!BinsNear(r.antitargets, AntiA(r))) ELSE ~AntiErrA(r)
    \/ RefDone(r) /\ (\/ RefRows(r) # RefRowsA(r)
                      \/ \E p \in 1..Len(r.reference) : LET o == r.reference[p] IN ~o.lok \/ o.l4 # 4 * FlatWantA(r, o)
                      \/ r.hasgc # r.ref_fa)

(* ================================================================= findings =========== *)
(* X01 finding: get_antitargets tests `if accessible:` -- an access table that is *given but empty* (all-N or fully      *)
(* excluded genome, or every sequence dropped as non-canonical) is treated like "no access file" and the chromosome     *)
(* extents are guessed from the targets ([150000, end of the last target)): antitarget bins appear in sequence the       *)
(* access file does not list.  Trigger (on the inputs): the specified access table is empty and some targeted contig's   *)
(* last bait ends far enough beyond the telomere guess for the guessed region to survive the two margins.               *)
EmptyAccessGuessed(r) ==
    /\ ExpectedAccess(r) = <<>>
    /\ LET ne == NonEmptyRows(r.baits) IN
       \E c \in Chroms(ne) : LET rows == OnChrom(ne, c) IN E(rows[Len(rows)]) - r.pad > r.telo + r.pad
KnownTriggers == {"EmptyAccessGuessed", "NoCanonicalTarget", "MinAboveSplitBin"}
TriggerHolds(t, r) ==
    CASE t = "EmptyAccessGuessed" -> EmptyAccessGuessed(r)
      [] t = "NoCanonicalTarget" -> AntiStepScope(r) /\ BN!NoCanonicalTarget(AntiRec(r))      \* diagnostic labels:
      [] t = "MinAboveSplitBin" -> AntiStepScope(r) /\ BN!MinAboveSplitBin(AntiRec(r))        \* C12's open findings
      [] OTHER -> FALSE
=============================================================================
