--------------------------- MODULE MC_Genes ---------------------------
(* Design check + enumerator for C16: every bin table in the small scope (all label sequences per          *)
(* chromosome that satisfy the premise, every row-index mode), one step per operation computing the         *)
(* A-layer result; the invariant is the P-layer.  The dump of this run is replayed into the real cnvlib     *)
(* code (direction 1).                                                                                      *)
EXTENDS Genes
CONSTANTS Tier,       \* "quick" or "thorough": which table of scopes below is enumerated
          ScopeIds    \* the scopes of that table enumerated in this run (indices into Scopes(Tier))

(* ---- the scope: one record per (operations, table shape, parameter sets) -------------------------------- *)
LabelsPlain == {<<"A">>, <<"B">>, <<"Antitarget">>, <<"-">>, <<"CGH">>}
LabelsFour  == {<<"A">>, <<"B">>, <<"Antitarget">>, <<"-">>}
LabelsThree == {<<"A">>, <<"B">>, <<"-">>}
LabelsComma == {<<"A">>, <<"B">>, <<"A", "B">>, <<"-">>}          \* "A,B": one bin in two genes
ThrTwo   == {<<0, 1>>, <<1, 2>>}                                  \* 0 and 0.5
ThrThree == {<<0, 1>>, <<1, 2>>, <<1, 5>>}                        \* ... and the default 0.2
SexNone  == {<<TRUE, FALSE, FALSE>>}                              \* <<female, haploid_x_reference, last chromosome is X>>: no adjustment
SexTwo   == {<<TRUE, FALSE, FALSE>>, <<FALSE, FALSE, TRUE>>}      \* none; male sample, diploid-X reference: X + 1
SexThree == SexTwo \cup {<<TRUE, TRUE, TRUE>>}                    \* female sample, haploid-X reference: X - 1
(* ops: operations; len1/len2: bins on chromosome 1 / 2 (len2 = 0: one chromosome); labels: alphabet;       *)
(* modes: row-index modes (IxOf); pats: value patterns; thr, minp, sex: parameter sets                       *)
Sc(ops, len1, len2, labels, modes, pats, thr, minp, sex) ==
    [ops |-> ops, len1 |-> len1, len2 |-> len2, labels |-> labels, modes |-> modes, pats |-> pats,
     thr |-> thr, minp |-> minp, sex |-> sex]
Scopes(tier) ==
    IF tier = "quick" THEN <<
        Sc({"by_gene"}, 5, 0, LabelsPlain, {0, 1, 2}, {1}, ThrTwo, {0}, SexNone),
        Sc({"by_gene"}, 3, 2, LabelsPlain, {0, 2}, {1}, ThrTwo, {0}, SexNone),
        Sc({"by_gene"}, 4, 0, LabelsComma, {0, 2}, {1}, ThrTwo, {0}, SexNone),
        Sc({"squash"}, 4, 0, LabelsFour, {0, 2}, {1}, ThrTwo, {0}, SexNone),
        Sc({"genemetrics"}, 4, 0, LabelsFour, {2}, {2}, ThrTwo, {0, 2}, SexTwo),
        Sc({"genemetrics"}, 2, 2, LabelsFour, {2}, {2}, ThrTwo, {2}, SexTwo),
        Sc({"genemetrics_seg"}, 3, 0, LabelsFour, {2}, {1}, ThrTwo, {0, 2}, SexNone),
        Sc({"breaks"}, 4, 0, LabelsThree, {0}, {1}, ThrTwo, {1, 2}, SexNone) >>
    ELSE <<
        Sc({"by_gene"}, 6, 0, LabelsPlain, {0, 1, 2}, {1}, ThrTwo, {0}, SexNone),
        Sc({"by_gene"}, 3, 3, LabelsPlain, {0, 2}, {1}, ThrTwo, {0}, SexNone),
        Sc({"by_gene"}, 5, 0, LabelsComma, {0, 1, 2, 3}, {1}, ThrTwo, {0}, SexNone),
        Sc({"squash"}, 5, 0, LabelsFour, {0, 2}, {1}, ThrTwo, {0}, SexNone),
        Sc({"squash"}, 3, 2, LabelsFour, {2}, {1}, ThrTwo, {0}, SexNone),
        Sc({"genemetrics"}, 4, 0, LabelsFour, {0, 2}, {1, 2}, ThrThree, {0, 2, 3}, SexTwo),
        Sc({"genemetrics"}, 2, 2, LabelsFour, {2}, {2}, ThrThree, {0, 2, 3}, SexThree),
        Sc({"genemetrics_seg"}, 4, 0, LabelsFour, {2}, {1}, ThrTwo, {0, 2, 3}, SexNone),
        Sc({"genemetrics_seg"}, 2, 2, LabelsFour, {2}, {1}, ThrTwo, {2}, SexThree),
        Sc({"breaks"}, 5, 0, LabelsThree, {0}, {1}, ThrTwo, {1, 2, 3}, SexNone) >>

LabSeqs(labels, n) == UNION {[1..m -> labels] : m \in 1..n}
LabChoices(sc) == IF sc.len2 = 0 THEN {<<a>> : a \in LabSeqs(sc.labels, sc.len1)}
                  ELSE {<<a, b>> : a \in LabSeqs(sc.labels, sc.len1), b \in LabSeqs(sc.labels, sc.len2)}

XPat == << <<8, 4, -8, 0, 12, 2, -4>>, <<4, -160, 8, -2, 0>> >>      \* pattern 2 has a low-coverage log2 (-20)
WPat == << <<8, 4, 8, 2, 6>>, <<8, 2, 4>> >>
DPat == << <<4, 8, 12>>, <<4, 0, 8, 4>> >>                          \* pattern 2 has a zero depth
Cyc(q, k) == q[((k - 1) % Len(q)) + 1]
(* row index label of the k-th row of the table:                                                            *)
(*   0 default RangeIndex; 1 shifted by 7 (rows filtered in front); 2 one row filtered out after every      *)
(*   second row (0,1,3,4,6,..); 3 every other row filtered out (0,2,4,..)                                   *)
IxOf(mode, k) == CASE mode = 0 -> k - 1
                   [] mode = 1 -> k + 6
                   [] mode = 2 -> (k - 1) + (k - 1) \div 2
                   [] OTHER    -> 2 * (k - 1)
MkBins(labs, mode, pat) ==
    LET off(c) == IF c = 1 THEN 0 ELSE Len(labs[1])
    IN FlattenSeq([c \in 1..Len(labs) |->
          [m \in 1..Len(labs[c]) |->
              LET k == off(c) + m IN
              <<c, 10 * (m - 1), IF m % 2 = 1 THEN 10 * m ELSE 10 * m - 3, labs[c][m], IxOf(mode, k),
                Cyc(XPat[pat], k), Cyc(WPat[pat], k), Cyc(DPat[pat], k)>>]])

(* segments: the bins are cut at chromosome ends and after the rows in `cuts`; a segment runs from the      *)
(* first start to the last end of its piece; probes = bins inside, weight = their summed weight              *)
SegXPat == <<8, -4, 0, 2, -8, 12>>
MkSegs(bins, cuts) ==
    LET isCut(k) == k = Len(bins) \/ k \in cuts \/ BC(bins[k]) # BC(bins[k + 1])
        ends == SelectSeq([k \in 1..Len(bins) |-> k], isCut)
        lo(t) == IF t = 1 THEN 1 ELSE ends[t - 1] + 1
    IN [t \in 1..Len(ends) |->
          <<BC(bins[lo(t)]), BS(bins[lo(t)]), BE(bins[ends[t]]), Cyc(SegXPat, t),
            SumW(SubSeq(bins, lo(t), ends[t])), ends[t] - lo(t) + 1>>]
(* variants: all segments / without the first one (bins in front of the first segment) *)
SegChoices(o, bins) ==
    IF o \in {"genemetrics_seg", "breaks"}
    THEN UNION {LET sg == MkSegs(bins, cuts) IN
                {sg} \cup (IF Len(sg) >= 2 THEN {Tail(sg)} ELSE {})
                : cuts \in SUBSET {k \in 1..(Len(bins) - 1) : BC(bins[k]) = BC(bins[k + 1])}}
    ELSE {<<>>}

P0 == [tn |-> 1, td |-> 5, minp |-> 3, skip |-> FALSE, hap |-> FALSE, female |-> TRUE, xc |-> 0,
       sqat |-> FALSE, sfun |-> "max", segcols |-> TRUE]
LastChrom(bins) == BC(bins[Len(bins)])
WithSex(p, sx, bins) == [p EXCEPT !.female = sx[1], !.hap = sx[2], !.xc = IF sx[3] THEN LastChrom(bins) ELSE 0]
Params(sc, o, bins) ==
    CASE o = "by_gene"         -> {P0}
      [] o = "squash"          -> {[P0 EXCEPT !.sqat = q, !.sfun = f] : q \in BOOLEAN, f \in {"max", "min"}}
      [] o = "genemetrics"     -> {WithSex([P0 EXCEPT !.tn = th[1], !.td = th[2], !.minp = mp, !.skip = sk], sx, bins) :
                                      th \in sc.thr, mp \in sc.minp, sk \in BOOLEAN, sx \in sc.sex}
      [] o = "genemetrics_seg" -> {WithSex([P0 EXCEPT !.tn = th[1], !.td = th[2], !.minp = mp, !.segcols = c], sx, bins) :
                                      th \in sc.thr, mp \in sc.minp, c \in BOOLEAN, sx \in sc.sex}
      [] o = "breaks"          -> {[P0 EXCEPT !.minp = mp] : mp \in sc.minp \ {0}}
      [] OTHER                 -> {P0}

VARIABLES op, bins, segs, par, ph, out
vars == <<op, bins, segs, par, ph, out>>
Rec == [op |-> op, bins |-> bins, segs |-> segs, par |-> par, out |-> out, err |-> ""]

Init == \E id \in ScopeIds : LET sc == Scopes(Tier)[id] IN
        /\ op \in sc.ops
        /\ \E labs \in LabChoices(sc), mode \in sc.modes, pat \in sc.pats : bins = MkBins(labs, mode, pat)
        /\ TableOK(bins) /\ GenesContiguous(bins)          \* the scope: tables satisfying the premise
        /\ par \in Params(sc, op, bins)
        /\ segs \in SegChoices(op, bins)
        /\ ph = "call" /\ out = <<>>
Call == /\ ph = "call" /\ ph' = "ret"
        /\ out' = ALayerOut(Rec, FALSE)
        /\ UNCHANGED <<op, bins, segs, par>>
Next == Call
Spec == Init /\ [][Next]_vars

(* design-level statement: the repaired algorithm as modelled satisfies every clause of the property *)
DesignOK == (ph = "ret" /\ Premise(Rec)) => \A c \in Clauses(op) : Holds(c, Rec)
(* the algorithm of the unrepaired by_gene (label-based, end-inclusive slices): kept to show the defect.     *)
(* TLC reports a counterexample at once (e.g. a one-bin chromosome labelled "-" is never yielded; A,A,B      *)
(* gives A three bins).                                                                                      *)
DesignOldByGene == (ph = "ret" /\ Premise(Rec)) =>
    \A c \in Clauses(op) : Holds(c, [Rec EXCEPT !.out = ALayerOut(Rec, TRUE)])
(* ... and wherever that algorithm's result differs from the repaired one's on a table without comma-joined *)
(* labels, some clause of the property rejects it (the property fixes the result; nothing escapes as drift)  *)
DesignOldCaught == (ph = "ret" /\ Premise(Rec) /\ NoCommas(bins) /\ DefectInput(Rec)) =>
    \E c \in Clauses(op) : ~Holds(c, [Rec EXCEPT !.out = ALayerOut(Rec, TRUE)])
=============================================================================
