--------------------------- MODULE MC_RnaImport ---------------------------
(* Design check + enumerator for X10 / RnaImport.  Every input of a small scope; the de-duplication of the gene-info     *)
(* table runs as a STATE MACHINE over the table (one action per phase of load_gene_info, one step per gene-id group in   *)
(* the groupby-apply loop over dedupe_ens_hugo and one per Entrez-id group in locate_entrez_dupes):                            *)
(*      Load -> [Join] -> DedupeGroup* -> [ResetEntrezGroup*] -> Fill -> done                                            *)
(* the other operations take one Call step.  INVARIANT DesignOK: the A-layer's result satisfies every P-layer clause,    *)
(* except on the inputs the known-finding triggers characterise (DesignStrict, without the exception, is run once as     *)
(* information); MachineAgrees: the state machine and the functional A-layer (GiCodedOut, used for MODEL-DRIFT) agree.   *)
(* The dump of this run (pc = "done") is replayed into the real code (direction 1).                                       *)
EXTENDS RnaImport
CONSTANTS Scope

Names == << <<49>>, <<50>>, <<49, 48>>, <<88>> >>                    \* "1", "2", "10", "X"
Row(k, gid, gene, entrez, tsl, txlen) ==
    [gid |-> gid, ver |-> 1, gc |-> 4125, c |-> 1 + (k % 2), s |-> 100 * k, e |-> 100 * k + 50, gene |-> gene,
     entrez |-> entrez, txlen |-> txlen, tsl |-> tsl, tstyle |-> 0]
CorrA == << [entrez |-> 5, hugo |-> 1, kt |-> 125, pr |-> 250, sr |-> 500], [entrez |-> 7, hugo |-> 2, kt |-> 100, pr |-> 100, sr |-> 100] >>
CorrB == << [entrez |-> 5, hugo |-> 2, kt |-> 0, pr |-> 999, sr |-> 1], [entrez |-> 7, hugo |-> 2, kt |-> 750, pr |-> 500, sr |-> 250] >>
CorrOptions == {<<FALSE, <<>>>>, <<TRUE, CorrA>>, <<TRUE, CorrB>>}
GiInput(rows, co, hdr) == [op |-> "geneinfo", names |-> Names, hdr |-> hdr, rows |-> rows, has_corr |-> co[1], corr |-> co[2],
                           out |-> <<>>, err |-> ""]
(* <= 2 rows, every field combination *)
Gi2Rows == LET dom(k) == {Row(k, gid, gene, en, tsl, tl) : gid \in {1, 2}, gene \in {1, 2}, en \in {0, 5, 7}, tsl \in {0, 1, 3}, tl \in {10, 20}}
           IN {<<a>> : a \in dom(1)} \cup {<<a, b>> : a \in dom(1), b \in dom(2)}
(* 3 rows: gene-id patterns x names x Entrez ids x support patterns, also with the single header line *)
Gi3Rows == {<<Row(1, gp[1], gn[1], en[1], ts[1], 10), Row(2, gp[2], gn[2], en[2], ts[2], 20), Row(3, gp[3], gn[3], en[3], ts[3], 10)>> :
              gp \in {<<1, 1, 1>>, <<1, 1, 2>>, <<1, 2, 2>>, <<2, 1, 1>>}, gn \in {<<1, 1, 1>>, <<1, 2, 1>>, <<2, 1, 1>>},
              en \in {<<a, b, c>> : a \in {0, 5, 7}, b \in {0, 5, 7}, c \in {5, 7}},
              ts \in {<<1, 1, 1>>, <<1, 3, 1>>, <<3, 1, 0>>, <<0, 3, 3>>}}
GiInputs == IF Scope = "gi2" THEN {GiInput(rows, co, 2) : rows \in Gi2Rows, co \in {<<FALSE, <<>>>>, <<TRUE, CorrB>>}}
            ELSE {GiInput(rows, co, hdr) : rows \in Gi3Rows, co \in {<<FALSE, <<>>>>, <<TRUE, CorrA>>}, hdr \in {1, 2}}

(* aggregate: two files of <= 2 rows over three genes *)
AgRowDom(g) == {[gid |-> g, ver |-> 1, cnt4 |-> c[1], len |-> c[2]] : c \in {<<0, 100>>, <<6, 200>>}}
AgFiles == {<<a>> : a \in UNION {AgRowDom(g) : g \in 1..3}}
           \cup {<<a, b>> : a \in UNION {AgRowDom(g) : g \in 1..3}, b \in UNION {AgRowDom(g) : g \in 1..3}}
AgFilesOK == {f \in AgFiles : Len(f) = 1 \/ f[1].gid # f[2].gid}
AgInputs == {[op |-> "aggregate", fmt |-> fmt,
              samples |-> <<[sid |-> 1, tail |-> TRUE, rows |-> f1], [sid |-> 2, tail |-> FALSE, rows |-> f2]>>,
              genes |-> <<>>, cols |-> <<>>, m |-> <<>>, txlen |-> <<>>, err |-> ""] : fmt \in {"rsem", "counts"}, f1 \in AgFilesOK, f2 \in AgFilesOK}

(* filter_probes: 2 genes x 1..3 samples over counts {0, 0.5, 1, 2} *)
FiVals == {0, 2, 4, 8}
FiRowsOf(n) == IF n = 1 THEN {<<a>> : a \in FiVals} ELSE IF n = 2 THEN {<<a, b>> : a \in FiVals, b \in FiVals}
               ELSE {<<a, b, c>> : a \in FiVals, b \in FiVals, c \in FiVals}
FiInputs == UNION {{[op |-> "filter", genes |-> <<3, 1>>, cols |-> [k \in 1..n |-> k], m |-> <<r1, r2>>, ogenes |-> <<>>, om |-> <<>>, err |-> ""]
                     : r1 \in FiRowsOf(n), r2 \in FiRowsOf(n)} : n \in 1..3}

(* tsl2int: a prefix + up to three characters of "1 5 6 N A blank x" *)
TslAlpha == {49, 53, 54, 78, 65, 32, 120}
RECURSIVE TslTails(_)
TslTails(n) == IF n = 0 THEN {<<>>} ELSE LET p == TslTails(n - 1) IN p \cup {Append(t, ch) : t \in {q \in p : Len(q) = n - 1}, ch \in TslAlpha}
TslInputs == {[op |-> "tsl", text |-> p \o t, out |-> 0, err |-> ""] : p \in {<<116, 115, 108>>, <<84, 83, 76>>, <<116, 115>>}, t \in TslTails(3)}
             \cup {[op |-> "tsl", text |-> <<>>, out |-> 0, err |-> ""]}

Inputs == IF Scope \in {"gi2", "gi3"} THEN GiInputs ELSE IF Scope = "aggregate" THEN AgInputs
          ELSE IF Scope = "filter" THEN FiInputs ELSE TslInputs

VARIABLES inp, pc, tab, todo
vars == <<inp, pc, tab, todo>>
(* tab: the working table as a sequence of [k: row index, reset: BOOLEAN]; todo: the groups still to visit *)
Init == /\ inp \in Inputs
        /\ pc = IF inp.op = "geneinfo" THEN "load" ELSE "call"
        /\ tab = <<>> /\ todo = <<>>
(* read_csv(header=1, names=...).sort_values("gene_id") *)
Load == /\ pc = "load"
        /\ LET gs == GiGidSeq(inp)
               byg(g) == Tx!SortedSeqOfSet(GiGroup(inp, GiSeenIdx(inp), g))
               cat == FoldLeft(LAMBDA acc, g : acc \o [j \in 1..Len(byg(g)) |-> [k |-> byg(g)[j], reset |-> FALSE]], <<>>, gs)
           IN tab' = cat /\ todo' = gs
        /\ pc' = IF inp.has_corr THEN "join" ELSE "dedupe"
        /\ UNCHANGED inp
(* gene_info.join(corr_table, on="entrez_id", how="left"): the TCGA fields of a row are GiCorrOf -- no row is added or lost *)
Join == /\ pc = "join" /\ pc' = "dedupe" /\ UNCHANGED <<inp, tab, todo>>
(* one group of groupby("gene_id").apply(dedupe_ens_hugo | dedupe_ens_no_hugo) *)
DedupeGroup == /\ pc = "dedupe" /\ todo # <<>>
               /\ LET g == Head(todo)
                      S == {tab[j].k : j \in {j \in 1..Len(tab) : inp.rows[tab[j].k].gid = g}}
                      keep == GiPick(inp, S)
                  IN tab' = SelectSeq(tab, LAMBDA x : inp.rows[x.k].gid # g \/ x.k = keep)
               /\ todo' = Tail(todo) /\ UNCHANGED <<inp, pc>>
DedupeDone == /\ pc = "dedupe" /\ todo = <<>>
              /\ IF inp.has_corr /\ GiEntrezShared(inp)
                 THEN pc' = "reset" /\ todo' = Tx!SortedSeqOfSet({inp.rows[tab[j].k].entrez : j \in 1..Len(tab)} \ {0})
                 ELSE pc' = "fill" /\ todo' = <<>>
              /\ UNCHANGED <<inp, tab>>
(* one group of locate_entrez_dupes' groupby("entrez_id") *)
ResetEntrezGroup == /\ pc = "reset" /\ todo # <<>>
                    /\ LET e == Head(todo)
                           grp == {tab[j].k : j \in {j \in 1..Len(tab) : inp.rows[tab[j].k].entrez = e}}
                           rs == GiResetOfGroup(inp, grp)
                       IN tab' = [j \in 1..Len(tab) |-> IF tab[j].k \in rs THEN [tab[j] EXCEPT !.reset = TRUE] ELSE tab[j]]
                    /\ todo' = Tail(todo) /\ UNCHANGED <<inp, pc>>
ResetDone == pc = "reset" /\ todo = <<>> /\ pc' = "fill" /\ UNCHANGED <<inp, tab, todo>>
(* fillna(default_r), entrez_id.fillna(0), set_index("gene_id") *)
Fill == pc = "fill" /\ pc' = "done" /\ UNCHANGED <<inp, tab, todo>>
Call == pc = "call" /\ pc' = "done" /\ UNCHANGED <<inp, tab, todo>>
Next == Load \/ Join \/ DedupeGroup \/ DedupeDone \/ ResetEntrezGroup \/ ResetDone \/ Fill \/ Call
Spec == Init /\ [][Next]_vars

MachineOut == [j \in 1..Len(tab) |-> GiOutRow(inp, tab[j].k, tab[j].reset)]
(* the A-layer's output as a record the P-layer can judge *)
ALayerRec(r) ==
    CASE r.op = "geneinfo" -> [r EXCEPT !.out = MachineOut]
      [] r.op = "tsl" -> LET a == TslCoded(r.text) IN IF a.err THEN [r EXCEPT !.err = "error"] ELSE [r EXCEPT !.out = a.v]
      [] r.op = "filter" -> LET gs == FiCodedGenes(r) IN [r EXCEPT !.ogenes = gs, !.om = [j \in 1..Len(gs) |-> r.m[FiIdx(r, gs[j])]]]
      [] r.op = "aggregate" ->
            IF ~AgEqualRows(r) THEN [r EXCEPT !.err = "RuntimeError: Number of rows in each input file is not equal"]
            ELSE IF r.fmt = "rsem" /\ Len(AgCodedGenes(r)) # Len(r.samples[1].rows) THEN [r EXCEPT !.err = "ValueError"]
            ELSE LET gs == AgCodedGenes(r) IN
                 [r EXCEPT !.genes = gs, !.cols = [k \in 1..AgN(r) |-> r.samples[k].sid], !.m = AgCodedM(r),
                           !.txlen = IF r.fmt = "rsem"
                                     THEN [j \in 1..Len(gs) |-> (1000 * ISum([k \in 1..AgN(r) |-> r.samples[k].rows[j].len])) \div AgN(r)]
                                     ELSE <<>>]
      [] OTHER -> r
Excused(c, rec) == \E t \in KnownTriggers : TriggerHolds(t, rec) /\ c \in TriggerClauses(t)
DesignOK == pc = "done" => (Premise(inp) => LET rec == ALayerRec(inp) IN \A c \in Clauses(inp.op) : Holds(c, rec) \/ Excused(c, rec))
DesignStrict == pc = "done" => (Premise(inp) => LET rec == ALayerRec(inp) IN \A c \in Clauses(inp.op) : Holds(c, rec))
MachineAgrees == (pc = "done" /\ inp.op = "geneinfo") => (MachineOut = GiCodedOut(inp) /\ ~GiDrift([inp EXCEPT !.out = MachineOut]))
NoSelfDrift == (pc = "done" /\ inp.op # "geneinfo") => ~Drift(ALayerRec(inp))
=============================================================================
