--------------------------- MODULE MC_Smoothing ---------------------------
(* Design check + enumerator for X07 / Smoothing.  Every input of the small scope; the iterated smoothers           *)
(* (convolve_unweighted, convolve_weighted, savgol) run as a STATE MACHINE -- Start, one Step per pass of the window   *)
(* (the code's `for _i in range(n_iter)`), Finish -- the single-pass functions in one Direct step.  At ph = "ret" the   *)
(* invariant DesignOK builds the record the A-layer predicts and checks every P-layer clause on it (A |= P) and that   *)
(* the machine agrees with the recursive operators the trace module uses.  The dump of this run is replayed into the   *)
(* real code (direction 1).                                                                                            *)
(*   * numpy / scipy window coefficients are abstract: the design check uses stand-ins (a triangular window for         *)
(*     kaiser, the moving average for savgol -- the Savitzky-Golay window of order 0 / 1)                               *)
(*   * guess: the scale estimate sdin / SU, ro*: the trend line trendin / U are enumerated here and handed to the real   *)
(*     code by the harness in place of descriptives.biweight_midvariance / smoothing.savgol                            *)
(*   * the finding KaiserWeightedPadded is modelled repaired (padding removed), so that the enumeration completes       *)
EXTENDS Smoothing
CONSTANTS Ops,      \* families of inputs to enumerate
          Big       \* BOOLEAN: the larger scope (thorough tier)

Seqs(S, lo, hi) == UNION {[1..k -> S] : k \in lo..hi}
Blank == [op |-> "", n |-> 0, v |-> <<>>, U |-> 1, wn |-> 0, wd |-> 1, wf |-> FALSE, wnone |-> FALSE, hasw |-> FALSE,
          w |-> <<>>, WU |-> 1, qn |-> 1, qd |-> 2, cn |-> 3, cd |-> 1, wini |-> <<>>, win |-> <<>>, wing |-> 0, niter |-> 1,
          fit |-> FALSE, ww |-> 7, order |-> 3, sdin |-> 0, SU |-> 1, trendin |-> <<>>, big |-> FALSE]
ObsInt(k) == SmObsOfFx(FxFromInt(k))
ObsInts(s) == [k \in 1..Len(s) |-> ObsInt(s[k])]

IntWidths == {<<2, 1>>, <<3, 1>>, <<5, 1>>, <<6, 1>>, <<7, 1>>, <<8, 1>>, <<9, 1>>, <<12, 1>>, <<25, 1>>}
FracWidths == {<<1, 4>>, <<1, 2>>, <<3, 4>>, <<7, 8>>, <<1, 3>>, <<9, 10>>}
BadWidths == {<<0, 1>>, <<1, 1>>, <<-1, 1>>, <<3, 2>>, <<5, 2>>, <<5, 4>>, <<-1, 2>>}
SomeWidths == {<<2, 1>>, <<5, 1>>, <<1, 2>>}
Ramp(n) == [i \in 1..n |-> i]
OnesN(n) == [i \in 1..n |-> 1]
Short == Seqs({0, 1, 3}, 2, IF Big THEN 4 ELSE 3)
Mid == Seqs({0, 1, 3}, 2, IF Big THEN 5 ELSE 4)

WingInputs == {[Blank EXCEPT !.op = "wing", !.n = n, !.wn = x[1], !.wd = x[2], !.wf = f]
                  : n \in 1..10, x \in IntWidths \cup FracWidths \cup BadWidths, f \in BOOLEAN}
CheckInputs == {[Blank EXCEPT !.op = "check", !.v = v, !.wn = x[1], !.wd = x[2], !.hasw = (k > 0),
                              !.w = IF k = 0 THEN <<>> ELSE IF k = 1 THEN Ramp(Len(v)) ELSE [i \in 1..Len(v) |-> (i % 2) * 3],
                              !.WU = 2]
                   : v \in Short, x \in SomeWidths, k \in 0..2}
RollInputs == {[Blank EXCEPT !.op = "rollq", !.v = v, !.wn = x[1], !.wd = x[2], !.qn = q[1], !.qd = q[2]]
                  : v \in Mid, x \in SomeWidths, q \in {<<1, 4>>, <<1, 2>>, <<19, 20>>, <<1, 1>>}}
         \cup {[Blank EXCEPT !.op = o, !.v = v, !.wn = x[1], !.wd = x[2]] : o \in {"rollmed", "rollstd"}, v \in Mid, x \in SomeWidths}
         \cup {[Blank EXCEPT !.op = "rollmed", !.v = <<k>>, !.wn = 5] : k \in {0, 3}}
Windows == {<<1, 2, 1>>, <<1, 2, 3>>, <<3, 1>>}
CuInputs == {[Blank EXCEPT !.op = "convu", !.v = v, !.U = 2, !.wini = wi, !.win = ObsInts(wi), !.wing = g, !.niter = k]
                : v \in Seqs(IF Big THEN {0, 1, 4} ELSE {0, 4}, 5, 5), wi \in Windows, g \in 1..2, k \in 1..3}
CwWeights == {<<1, 1, 1, 1>>, <<2, 2, 2, 2>>, <<1, 2, 1, 2>>, <<0, 1, 2, 1>>, <<1, 0, 0, 1>>}
CwInputs == {[Blank EXCEPT !.op = "convw", !.v = v, !.U = 2, !.wini = wi, !.win = ObsInts(wi), !.hasw = TRUE, !.w = w, !.niter = k]
                : v \in Seqs(IF Big THEN {0, 1, 4} ELSE {0, 4}, 4, 4), wi \in Windows, w \in CwWeights, k \in 1..2}
      \cup {[Blank EXCEPT !.op = "convw", !.v = <<1, 2, 3, 4>>, !.wini = <<1, 2, 1>>, !.win = ObsInts(<<1, 2, 1>>), !.hasw = TRUE, !.w = w]
                : w \in {<<1, 1, 1>>, <<1, 1, 1, 1, 1>>, <<>>}}
KsInputs == {[Blank EXCEPT !.op = "kaiser", !.v = v, !.wn = x[1], !.wd = x[2], !.hasw = (k > 0),
                           !.w = IF k = 0 THEN <<>> ELSE IF k = 1 THEN OnesN(Len(v)) ELSE Ramp(Len(v))]
                : v \in Seqs({0, 1, 3}, 1, IF Big THEN 5 ELSE 3), x \in {<<2, 1>>, <<7, 1>>, <<1, 2>>}, k \in 0..2}
SgSignals(n) == {Ramp(n), [i \in 1..n |-> (i % 2) * 3 + (i \div 3)]}
SgInputs == {[Blank EXCEPT !.op = "savgol", !.v = v, !.U = 2, !.wnone = (x = <<0, 0>>), !.wn = x[1], !.wd = IF x[2] = 0 THEN 1 ELSE x[2],
                           !.ww = ww, !.order = o, !.niter = k, !.hasw = hw, !.w = IF hw THEN Ramp(Len(v)) ELSE <<>>]
                : v \in UNION {SgSignals(n) : n \in IF Big THEN {1, 2, 3, 5, 8} ELSE {1, 2, 3, 6}},
                  x \in {<<0, 0>>, <<3, 1>>, <<5, 1>>, <<9, 1>>, <<1, 2>>},
                  ww \in IF Big THEN {1, 2, 3, 5, 7} ELSE {2, 3, 7}, o \in {1, 3}, k \in IF Big THEN 1..3 ELSE {1, 3}, hw \in BOOLEAN}
GwInputs == {[Blank EXCEPT !.op = "guess", !.v = Ramp(n), !.sdin = s, !.SU = 8] : n \in 1..12, s \in {0, 1, 2, 3, 4, 7, 8, 11, 24, 80}}
OutInputs == {[Blank EXCEPT !.op = "oiqr", !.v = v, !.cn = c[1], !.cd = c[2]] : v \in Seqs(0..3, 1, IF Big THEN 5 ELSE 4), c \in {<<3, 2>>, <<3, 1>>, <<1, 3>>}}
        \cup {[Blank EXCEPT !.op = "omad", !.v = v] : v \in Seqs(0..3, 1, IF Big THEN 5 ELSE 4)}
RoSignals == Seqs(IF Big THEN {0, 1, 5} ELSE {0, 5}, 4, 4) \cup {<<0, 1, 5, 1, 0>>, <<5, 5, 0, 1, 1>>, <<1, 0, 0, 5, 0, 1>>}
RoMk(o, v, x, q, c, t) ==
    [Blank EXCEPT !.op = o, !.v = v, !.U = 4, !.wn = x[1], !.wd = x[2], !.qn = q[1], !.qd = q[2], !.cn = c[1], !.cd = c[2],
                  !.trendin = [i \in 1..Len(v) |-> IF t = 0 THEN 1 ELSE v[IF i = 1 THEN 1 ELSE i - 1]]]
RoWidths == {<<2, 1>>, <<7, 1>>, <<1, 2>>}
RoInputs == {RoMk(o, v, x, <<1, 2>>, c, t) : o \in {"roiqr", "rostd"}, v \in RoSignals, x \in RoWidths, c \in {<<1, 1>>, <<3, 2>>}, t \in 0..1}
       \cup {RoMk("roq", v, x, q, c, t) : v \in RoSignals, x \in RoWidths, q \in {<<1, 2>>, <<19, 20>>}, c \in {<<1, 1>>, <<3, 2>>}, t \in 0..1}

Inputs == (IF "wing" \in Ops THEN WingInputs ELSE {}) \cup (IF "check" \in Ops THEN CheckInputs ELSE {})
          \cup (IF "roll" \in Ops THEN RollInputs ELSE {}) \cup (IF "convu" \in Ops THEN CuInputs ELSE {})
          \cup (IF "convw" \in Ops THEN CwInputs ELSE {}) \cup (IF "kaiser" \in Ops THEN KsInputs ELSE {})
          \cup (IF "savgol" \in Ops THEN SgInputs ELSE {}) \cup (IF "guess" \in Ops THEN GwInputs ELSE {})
          \cup (IF "outlier" \in Ops THEN OutInputs ELSE {}) \cup (IF "rolling_outlier" \in Ops THEN RoInputs ELSE {})

(* ================================================================= stand-in windows ============ *)
Triangle(M) == [k \in 1..M |-> ObsInt(IntMin(k, M + 1 - k))]
Uniform(M) == [k \in 1..M |-> SmObsOfFx(FxFromRat(1, M))]
SgRunsIn(r) == Len(r.v) >= 2 /\ SmWidthOK(SgN(r), SgReqWn(r), SgReqWd(r)) /\ SmWeightsOK(r, TRUE)
SgWin(r) == Uniform(SgWw(r))
KsWinFor(r) == Triangle(2 * KsWing(r) + 1)

(* ================================================================= the state machine ============ *)
VARIABLES inp, ph, it, ys, ws, cnd
vars == <<inp, ph, it, ys, ws, cnd>>
Iterates(r) ==
    \/ r.op = "convu" /\ Premise(r)
    \/ r.op = "convw" /\ Premise(r) /\ ~CwLenMismatch(r)
    \/ r.op = "savgol" /\ SgRunsIn(r)
Weighted(r) == r.op = "convw" \/ (r.op = "savgol" /\ r.hasw)
Passes(r) == IF r.op = "savgol" THEN SgIter(r) ELSE r.niter
WinZ(r) == IF r.op = "savgol" THEN SmWinZ(SgWin(r)) ELSE SmWinZ(r.win)
Half(r) == IF r.op = "savgol" /\ ~r.hasw THEN SmHalfSci(SgWw(r)) ELSE SmHalfNp(Len(WinZ(r)))
Y0(r) == CASE r.op = "convu" -> SmIntsZ(r.v)
           [] r.op = "convw" -> SmFxOfGrid(r.v, r.U)
           [] r.op = "savgol" -> IF r.hasw THEN SmFxOfGrid(SgPad(r), r.U) ELSE SmIntsZ(SgPad(r))
W0(r) == CASE r.op = "convw" -> SmFxOfGrid(r.w, r.WU)
           [] r.op = "savgol" /\ r.hasw -> SmPaddedWeightsFx(r.w, r.WU, SgWing(r))
           [] OTHER -> <<>>
Init == /\ inp \in Inputs /\ ph = "call" /\ it = 0 /\ ys = <<>> /\ ws = <<>> /\ cnd = TRUE
Start == /\ ph = "call" /\ Iterates(inp)                 \* pad / normalise: everything before the loop
         /\ ph' = "iter" /\ it' = 0 /\ ys' = Y0(inp) /\ ws' = W0(inp) /\ cnd' = TRUE /\ UNCHANGED inp
Step == /\ ph = "iter" /\ it < Passes(inp)               \* one pass of the loop body
        /\ it' = it + 1 /\ UNCHANGED <<inp, ph>>
        /\ IF Weighted(inp)
           THEN LET st == SmCwStep(SmNormWin(WinZ(inp)), [y |-> ys, w |-> ws, cond |-> cnd], Half(inp)) IN
                ys' = st.y /\ ws' = st.w /\ cnd' = st.cond
           ELSE ys' = SmConv(WinZ(inp), ys, Half(inp)) /\ UNCHANGED <<ws, cnd>>
Finish == /\ ph = "iter" /\ it = Passes(inp) /\ ph' = "ret" /\ UNCHANGED <<inp, it, ys, ws, cnd>>
Direct == /\ ph = "call" /\ ~Iterates(inp) /\ ph' = "ret" /\ UNCHANGED <<inp, it, ys, ws, cnd>>
Next == Start \/ Step \/ Finish \/ Direct
Spec == Init /\ [][Next]_vars

(* ================================================================= the record the A-layer predicts ============ *)
Out0 == [outi |-> 0, outs |-> <<>>, outw |-> <<>>, sig |-> <<>>, mask |-> <<>>, winm |-> 0, beta |-> 0, nwin |-> 0, gw |-> 0,
         dbg |-> <<>>, calls |-> <<>>, outs0 |-> <<>>, trend |-> <<>>, sd |-> SmNoObs, nsd |-> 0, err |-> "", msg |-> "", wrepr |-> "?"]
With(r) == r @@ Out0
ObsFxSeq(s, first, count, ok) == [i \in 1..count |-> IF ok THEN SmObsOfFx(s[first + i - 1]) ELSE SmNoObs]
ObsRatSeq(s, den, first, count) == [i \in 1..count |-> SmObsOfRat(s[first + i - 1], den)]
ObsGrid(v, U) == [i \in 1..Len(v) |-> SmObsOfRat(SmZI(v[i]), SmZI(U))]
WidthFails(n, wn, wd, r) ==          \* [err, msg] of _width2wing, <<"", "">> when it returns
    IF ~SmValidW(wn, wd) THEN <<"ValueError", SmBadWidthMsg(r)>>
    ELSE IF SmWingW(n, wn, wd) < 1 THEN <<"AssertionError", SmWingMsg(n)>> ELSE <<"", "">>
Fails(r0, e) == [r0 EXCEPT !.err = e[1], !.msg = e[2]]
GwPick(r) == LET n == Len(r.v) IN
    IF n <= 3 THEN n ELSE CHOOSE k \in 3..n : (k > 3 => GwAtLeast(r, k)) /\ (k < n => GwAtMost(r, k))
RoMask(r) ==       \* as coded: linear quantiles, ddof = 1, exact comparison
    LET n == RoN(r)  wg == RoWing(r)  d == RoResid(r)  a == RoAbs(d)
        padd == MirrorPad(d, wg)  pada == MirrorPad(a, wg)  m == 2 * wg + 1 IN
    [i \in 1..n |->
        CASE r.op = "roq" -> ZLt(ZMulInt(RoLinFx(RoWindowFx(pada, i, wg), SmQPos(m, r.qn, r.qd)), r.cn), ZMulInt(a[i], r.cd))
          [] r.op = "roiqr" -> LET t == RoWindowFx(padd, i, wg) IN
                               ZLt(ZMulInt(ZSub(RoLinFx(t, SmQPos(m, 3, 4)), RoLinFx(t, SmQPos(m, 1, 4))), r.cn), ZMulInt(a[i], r.cd))
          [] r.op = "rostd" -> ZLt(ZMulInt(RoStdFx(SubSeq(padd, i, i + 2 * wg), 1), r.cn), ZMulInt(a[i], r.cd))]
ALayerRec(r) ==
    LET r0 == With(r)  n == Len(r.v) IN
    CASE r.op = "wing" -> LET e == WidthFails(r.n, r.wn, r.wd, r0) IN
                          IF e[1] # "" THEN Fails(r0, e) ELSE [r0 EXCEPT !.outi = SmWing(r.n, r)]
      [] r.op = "check" -> LET wg == SmWing(n, r) IN
                           [r0 EXCEPT !.outi = wg, !.sig = MirrorPad(r.v, wg),
                                      !.outw = IF r.hasw THEN LET pw == SmPaddedWeightsFx(r.w, r.WU, wg) IN ObsFxSeq(pw, 1, Len(pw), TRUE) ELSE <<>>]
      [] r.op \in {"rollq", "rollmed"} ->
            IF n < 2 THEN [r0 EXCEPT !.outs = ObsGrid(r.v, r.U)]
            ELSE LET wg == RqWing(r)  pad == MirrorPad(r.v, wg)  q == RqQ(r)  p == SmQPos(2 * wg + 1, q[1], q[2]) IN
                 [r0 EXCEPT !.outs = [i \in 1..n |-> SmObsOfRat(SmZI(SmQLinNum(SmWindow(pad, i, wg), p)), SmZI(p[3] * r.U))]]
      [] r.op = "rollstd" -> LET wg == RqWing(r)  pad == MirrorPad(r.v, wg) IN
                             [r0 EXCEPT !.outs = [i \in 1..n |-> SmObsOfFx(SmStdFx(SubSeq(pad, i, i + 2 * wg), r.U, 1))]]
      [] r.op = "convu" -> [r0 EXCEPT !.outs = ObsRatSeq(ys, ZMulInt(SmPow(ZSum(WinZ(r)), r.niter), r.U), r.wing + 1, CuCount(r))]
      [] r.op = "convw" -> IF CwLenMismatch(r) THEN Fails(r0, <<"AssertionError", CwLenMsg(r)>>)
                           ELSE [r0 EXCEPT !.outs = ObsFxSeq(ys, 1, n, cnd), !.outw = ObsFxSeq(ws, 1, n, cnd)]
      [] r.op = "kaiser" ->
            IF n < 2 THEN [r0 EXCEPT !.outs = ObsGrid(r.v, r.U)]
            ELSE LET wg == KsWing(r)  r1 == [r0 EXCEPT !.win = KsWinFor(r), !.winm = 2 * wg + 1, !.beta = 14, !.nwin = 1] IN
                 IF r.hasw THEN LET st == KsCwRun(r1) IN [r1 EXCEPT !.outs = ObsFxSeq(st.y, wg + 1, n, st.cond)]     \* repaired: chopped
                 ELSE LET W == SmWinZ(r1.win)  y == SmConv(W, SmIntsZ(KsPad(r)), SmHalfNp(Len(W))) IN
                      [r1 EXCEPT !.outs = ObsRatSeq(y, ZMulInt(ZSum(W), r.U), wg + 1, n)]
      [] r.op = "savgol" ->
            IF n < 2 THEN [r0 EXCEPT !.outs = ObsGrid(r.v, r.U)]
            ELSE LET e == WidthFails(n, SgReqWn(r), SgReqWd(r), [r0 EXCEPT !.wrepr = "?"]) IN
                 IF e[1] # "" THEN Fails(r0, e)
                 ELSE LET r1 == [r0 EXCEPT !.win = SgWin(r), !.nwin = 1, !.dbg = SgDbg(r), !.calls = IF r.hasw THEN <<>> ELSE SgCalls(r)] IN
                      IF r.hasw THEN [r1 EXCEPT !.outs = ObsFxSeq(ys, SgWing(r) + 1, n, cnd)]
                      ELSE [r1 EXCEPT !.outs = ObsRatSeq(ys, ZMulInt(SmPow(ZSum(WinZ(r)), SgIter(r)), r.U), SgWing(r) + 1, n)]
      [] r.op = "guess" -> LET r1 == [r0 EXCEPT !.sd = SmObsOfRat(SmZI(r.sdin), SmZI(r.SU)), !.nsd = 1] IN [r1 EXCEPT !.outi = GwPick(r1)]
      [] r.op = "oiqr" -> [r0 EXCEPT !.mask = OiCoded(r)]
      [] r.op = "omad" -> [r0 EXCEPT !.mask = OmCoded(r)]
      [] r.op \in {"roiqr", "roq", "rostd"} ->
            IF RoEarly(r) THEN [r0 EXCEPT !.mask = [i \in 1..n |-> FALSE]]
            ELSE LET e == WidthFails(n, r.wn, r.wd, r0) IN
                 IF e[1] # "" THEN Fails(r0, e)
                 ELSE LET r1 == [r0 EXCEPT !.trend = ObsGrid(r.trendin, r.U), !.nwin = 1] IN [r1 EXCEPT !.mask = RoMask(r1)]

(* the machine's result = the recursive operators of Smoothing.tla (used on traces) *)
MachineAgrees(r) ==
    Iterates(r) => IF Weighted(r) THEN LET st == SmCwIter(SmNormWin(WinZ(r)), SmCwStart(Y0(r), W0(r)), Half(r), Passes(r)) IN
                                       ys = st.y /\ ws = st.w /\ cnd = st.cond
                   ELSE ys = SmConvIter(WinZ(r), Y0(r), Half(r), Passes(r))
DesignOK == ph = "ret" => LET rec == ALayerRec(inp) IN
                          /\ MachineAgrees(inp)
                          /\ Premise(rec) => (\A c \in Clauses(inp.op) : Holds(c, rec)) /\ ~Drift(rec)
=============================================================================
