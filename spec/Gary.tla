--------------------------- MODULE Gary ---------------------------
(* Extension X02 -- the GenomicArray / CopyNumArray container (skgenome/gary.py, cnvlib/cnary.py) *)
(* as a state machine.                                                                            *)
(*                                                                                                *)
(* State of one array object (what the harness projects from a live Python object):               *)
(*   cls    "GA" | "CNA"                                                                          *)
(*   cols   column names in DataFrame order                                                       *)
(*   rows   sequence of rows, each a sequence of integer cells aligned with cols                   *)
(*            chromosome : index into the world's table of names (text, Seq(0..255));              *)
(*                         NEGATIVE = the cell holds a Python int, not a str (uncoerced)           *)
(*            start, end : the integer; gene : symbol id; float columns (log2, depth, weight) : 8x *)
(*   index  the pandas row labels (integers)                                                      *)
(*   meta   set of <<key, value>>  (value 0 = opaque; chr_x/chr_y: 1 = "X"/"Y", 2 = "chrX"/"chrY") *)
(*   dt     dtype names of the class's required columns                                           *)
(* A session state is  objs : name -> object state  and  al : name -> canonical name (two names   *)
(* bound to the SAME Python object -- autosomes() returns self when nothing has an integer name).  *)
(*                                                                                                *)
(* A-layer: Step(w, objs, al, ev) -- one CASE arm per public method, following the code branch      *)
(*          for branch, including which operations keep and which reset the row labels, dtype     *)
(*          coercions in the constructor, column order.  Disagreement = MODEL-DRIFT.              *)
(*          Step returns [objs, al, err, ret, alias, dc]: err = "" | the exception class name |    *)
(*          "ANY" (some exception, class not modelled) | "MAYBE" (pandas fails or not, state       *)
(*          unchanged either way); ret = the non-array result [v, w, t, g]; alias = the result IS  *)
(*          the receiver; dc = the result depends on state the projection does not hold.           *)
(*          Labels:  KEPT by __getitem__ (slice, mask), filter, autosomes, by_chromosome, by_arm,  *)
(*          copy, add_columns, keep_columns, drop_extra_columns, drop_low_coverage,                *)
(*          as_dataframe(reset_index=False), shuffle (permuted with the rows), __setitem__;        *)
(*          RESET to 0..n-1 by sort, add (unless `other` is empty: then nothing happens at all),   *)
(*          concat, from_rows, from_columns, as_rows, as_columns, as_dataframe(reset_index=True).  *)
(* P-layer: Clauses / Holds -- ONLY what the package documents (docstrings, error messages);      *)
(*          each clause quotes its source.                                                        *)
EXTENDS Text, SequencesExt, FiniteSetsExt, Functions, Json, IOUtils

(* The worlds (name tables, datasets for the constructors, initial objects, parameter menus) are  *)
(* produced by the harness, so the model's alphabet cannot drift from what is executed.           *)
Worlds == JsonDeserialize(IOEnv.WORLD_FILE)

Idx(s) == 1..Len(s)
Abs(x) == IF x < 0 THEN 0 - x ELSE x
Min2(a, b) == IF a < b THEN a ELSE b
Max2(a, b) == IF a > b THEN a ELSE b
SeqFromTo(a, b) == [j \in 1..(IF b >= a THEN b - a + 1 ELSE 0) |-> a + j - 1]
RECURSIVE Pow2(_)
Pow2(k) == IF k <= 0 THEN 1 ELSE 2 * Pow2(k - 1)
Bit(bits, j) == (bits \div Pow2(j - 1)) % 2 = 1

(* ------------------------------------------------------------------ classes and columns *)
ReqCols(cls) == IF cls = "CNA" THEN <<"chromosome", "start", "end", "gene", "log2">>
                ELSE <<"chromosome", "start", "end">>
ClsOf(k) == IF k = 2 THEN "CNA" ELSE "GA"
IsInst(c1, c2) == c1 = c2 \/ c2 = "GA"          \* isinstance(object of class c1, class c2): CNA is a GA
HasCol(cols, c) == \E j \in Idx(cols) : cols[j] = c
ColPos(cols, c) == CHOOSE j \in Idx(cols) : cols[j] = c
N(o) == Len(o.rows)
Col(o, c) == LET j == ColPos(o.cols, c) IN [k \in Idx(o.rows) |-> o.rows[k][j]]
Cell(o, k, c) == o.rows[k][ColPos(o.cols, c)]
MissingReq(cls, cols) == \E q \in Idx(ReqCols(cls)) : ~HasCol(cols, ReqCols(cls)[q])
MetaKeys(o) == {kv[1] : kv \in o.meta}
NameOf(w, id) == Worlds[w].names[Abs(id)]
Mixed(o) == HasCol(o.cols, "chromosome") /\ \E k \in Idx(o.rows) : Cell(o, k, "chromosome") < 0

(* observed (JSON) object -> model object: meta list -> set *)
FromObs(o) == [cls |-> o.cls, cols |-> o.cols, rows |-> o.rows, index |-> o.index,
               meta |-> {o.meta[j] : j \in Idx(o.meta)}, dt |-> o.dt]
FromObsAll(post) == [n \in DOMAIN post |-> FromObs(post[n])]
FromObsRet(r) == [v |-> r.v, w |-> r.w, t |-> r.t,
                  g |-> [j \in Idx(r.g) |-> [key |-> r.g[j].key, st |-> FromObs(r.g[j].st)]]]

(* ================================================================= A-layer ================== *)
(* ---- the constructor GenomicArray.__init__ -------------------------------------------------- *)
(* "Ensure columns are the right type": only the FIRST value of each required column is looked    *)
(* at; a chromosome column is recast to str iff its first value is not a str.                      *)
CoerceChrom(cols, rows) ==
    IF rows = <<>> \/ ~HasCol(cols, "chromosome") THEN rows
    ELSE LET j == ColPos(cols, "chromosome") IN
         IF rows[1][j] < 0 THEN [k \in Idx(rows) |-> [rows[k] EXCEPT ![j] = Abs(@)]] ELSE rows
DtOf(cls, cols, rows) ==
    [q \in Idx(ReqCols(cls)) |->
        LET c == ReqCols(cls)[q] IN
        IF c = "chromosome"
        THEN (IF HasCol(cols, c) /\ \E k \in Idx(rows) : rows[k][ColPos(cols, c)] < 0 THEN "object" ELSE "str")
        ELSE IF c = "gene" THEN "str" ELSE IF c = "log2" THEN "float64" ELSE "int64"]
Blank(cls, meta) == [cls |-> cls, cols |-> ReqCols(cls), rows |-> <<>>, index |-> <<>>, meta |-> meta,
                     dt |-> DtOf(cls, ReqCols(cls), <<>>)]
(* data_table is None / empty list / DataFrame without columns -> _make_blank(); required columns  *)
(* missing -> ValueError("data table must have at least columns ...")                             *)
Ctor(cls, cols, rows, index, meta) ==
    IF cols = <<>> THEN [err |-> "", st |-> Blank(cls, meta)]
    ELSE IF MissingReq(cls, cols) THEN [err |-> "ValueError", st |-> Blank(cls, meta)]
    ELSE LET rr == CoerceChrom(cols, rows) IN
         [err |-> "", st |-> [cls |-> cls, cols |-> cols, rows |-> rr, index |-> index, meta |-> meta,
                              dt |-> DtOf(cls, cols, rr)]]
DefaultIndex(n) == [k \in 1..n |-> k - 1]

(* ---- results -------------------------------------------------------------------------------- *)
NoRet == [v |-> <<>>, w |-> <<>>, t |-> <<>>, g |-> <<>>]
RetV(v) == [NoRet EXCEPT !.v = v]
RetVW(v, w) == [NoRet EXCEPT !.v = v, !.w = w]
Out(objs, al, err, ret) == [objs |-> objs, al |-> al, err |-> err, ret |-> ret, alias |-> FALSE, dc |-> FALSE]
Fail(objs, al, e) == Out(objs, al, e, NoRet)
NewObj(objs, al, res, c) ==           \* c = a Ctor result; the new object is bound to the name res
    IF c.err # "" THEN Fail(objs, al, c.err)
    ELSE Out(objs @@ (res :> c.st), al @@ (res :> res), "", NoRet)
InPlace(objs, al, recv, st, ret) ==   \* every name bound to the receiver's object sees the change
    Out([n \in DOMAIN objs |-> IF al[n] = al[recv] THEN st ELSE objs[n]], al, "", ret)
Observe(objs, al, ret) == Out(objs, al, "", ret)

(* rows at the positions K (1-based), labels travel with their rows *)
Sel(o, K) == [o EXCEPT !.rows = [j \in Idx(K) |-> o.rows[K[j]]], !.index = [j \in Idx(K) |-> o.index[K[j]]]]
Where(n, P(_)) == SortedSeqOfSet({k \in 1..n : P(k)})
(* self.as_dataframe(<row subset of self.data>): the constructor runs again, labels are KEPT *)
SubObj(o, K) == LET s == Sel(o, K) IN Ctor(o.cls, s.cols, s.rows, s.index, s.meta)
PyPos(k, n) == IF k >= 0 THEN k + 1 ELSE n + k + 1          \* Python index -> 1-based position
SlicePos(kind, n) ==
    CASE kind = 1 -> SeqFromTo(2, Min2(3, n))                        \* [1:3]
      [] kind = 2 -> SeqFromTo(1, Min2(1, n))                        \* [:1]
      [] kind = 3 -> [j \in 1..n |-> n - j + 1]                      \* [::-1]
      [] kind = 4 -> SeqFromTo(3, n)                                 \* [2:]
      [] kind = 5 -> [j \in 1..((n + 1) \div 2) |-> 2 * j - 1]       \* [::2]
      [] OTHER    -> SeqFromTo(Max2(1, n - 1), n)                    \* [-2:]
MaskPos(bits, n) == Where(n, LAMBDA k : Bit(bits, k))

(* literal values the harness passes for "a row" / "a column" (decoded per column kind) *)
LitCell(c) == CASE c = "chromosome" -> 1 [] c = "start" -> 70 [] c = "end" -> 90 [] c = "gene" -> 1
                [] c = "log2" -> 4 [] OTHER -> 3
LitRow(cols) == [j \in Idx(cols) |-> LitCell(cols[j])]
LitCol(c, n) == [k \in 1..n |-> IF c = "log2" THEN 2 * k ELSE IF c = "start" THEN 50 + k
                                ELSE IF c = "end" THEN 60 + k ELSE IF c = "gene" THEN 1 + (k % 2) ELSE 10 + k]
SetCol(o, c, vals) ==      \* self.data[c] = vals : replace, or append a new column at the end
    IF HasCol(o.cols, c)
    THEN [o EXCEPT !.rows = [k \in Idx(o.rows) |-> [o.rows[k] EXCEPT ![ColPos(o.cols, c)] = vals[k]]]]
    ELSE [o EXCEPT !.cols = Append(o.cols, c), !.rows = [k \in Idx(o.rows) |-> Append(o.rows[k], vals[k])]]

(* ---- natural chromosome order (chromsort.sorter_chrom via Text.ChromKey) -------------------- *)
SortRows(w, o) ==        \* sort_values(by=[key, start, end], kind="mergesort"): stable
    LET cj == ColPos(o.cols, "chromosome")  sj == ColPos(o.cols, "start")  ej == ColPos(o.cols, "end")
        keyed == TLCEval([k \in Idx(o.rows) |-> <<ChromKey(NameOf(w, o.rows[k][cj])), o.rows[k][sj], o.rows[k][ej], o.rows[k]>>])
        Less(x, y) == \/ KeyTupleLess(x[1], y[1])
                      \/ x[1] = y[1] /\ x[2] < y[2]
                      \/ x[1] = y[1] /\ x[2] = y[2] /\ x[3] < y[3]
        srt == TLCEval(StableSortBy(keyed, Less))
    IN [k \in Idx(srt) |-> srt[k][4]]
Sorted(w, o) == [o EXCEPT !.rows = SortRows(w, o), !.index = DefaultIndex(N(o))]     \* .reset_index(drop=True)

(* np.random.seed(0xA5EED); np.random.shuffle(arange(n)) -- table generated with numpy's legacy  *)
(* generator at specification-writing time (0-based positions)                                    *)
ShuffleTable == <<
    <<0>>, <<1, 0>>, <<1, 2, 0>>, <<1, 3, 2, 0>>, <<3, 1, 0, 2, 4>>, <<3, 5, 1, 0, 2, 4>>,
    <<0, 5, 1, 3, 6, 2, 4>>, <<0, 6, 1, 5, 3, 7, 2, 4>>, <<6, 0, 1, 7, 5, 3, 8, 2, 4>>,
    <<7, 0, 1, 8, 6, 5, 3, 9, 2, 4>>, <<6, 10, 1, 0, 9, 8, 5, 7, 3, 2, 4>>,
    <<7, 11, 1, 0, 10, 8, 6, 9, 5, 3, 2, 4>>, <<12, 7, 1, 8, 0, 11, 9, 6, 10, 5, 3, 2, 4>>,
    <<10, 13, 8, 7, 6, 9, 1, 0, 12, 11, 5, 3, 2, 4>>, <<10, 14, 8, 7, 6, 9, 1, 0, 13, 11, 5, 3, 12, 2, 4>>,
    <<11, 15, 9, 8, 6, 10, 1, 7, 0, 14, 13, 5, 3, 12, 2, 4>> >>
MaxShuffle == Len(ShuffleTable)
ShuffleOrder(n) == IF n = 0 THEN <<>> ELSE ShuffleTable[n]

(* autosomes(): chromosome.str.match(r"(chr)?\d+$")  (a non-str cell gives NaN -> na=False) *)
IsAutoName(s) == LET rest == IF StartsWithSub(s, txt_chr) THEN DropFirst(s, 3) ELSE s
                 IN rest # <<>> /\ AllChars(rest, IsDigit)
IsAutoCell(w, c) == c > 0 /\ IsAutoName(NameOf(w, c))

(* groupby("chromosome", sort=False): groups in order of first appearance *)
ChromGroups(o) == FirstSeen(Col(o, "chromosome"))
GroupPos(o, c) == Where(N(o), LAMBDA k : Cell(o, k, "chromosome") = c)

(* by_arm on one chromosome's positions K (into o): margin = max(min_arm_bins, int(round(0.1*n))) *)
RoundHalfEven(num, den) ==
    LET q == num \div den  r == num % den IN
    IF 2 * r < den THEN q ELSE IF 2 * r > den THEN q + 1 ELSE IF q % 2 = 0 THEN q ELSE q + 1
ArmSplit(o, K, gap, mab) ==      \* number of rows in the p arm, 0 = no split
    LET n == Len(K)
        m == Max2(mab, RoundHalfEven(n, 10))
        G(k) == Cell(o, K[k], "start") - Cell(o, K[k - 1], "end")      \* gap before the k-th row
    IN IF n > 2 * m + 1
       THEN LET cand == (m + 2)..(n - m)
                best == Max({G(k) : k \in cand})
                kq == Min({k \in cand : G(k) = best})
            IN IF best >= gap THEN kq - 1 ELSE 0
       ELSE 0

(* medians for residuals: values are 8x log2 on the quarter grid (even integers) *)
MedianOf(vals) == LET s == StableSortBy(vals, LAMBDA a, b : a < b)  n == Len(s)
                  IN IF n % 2 = 1 THEN s[(n + 1) \div 2] ELSE (s[n \div 2] + s[n \div 2 + 1]) \div 2

(* CopyNumArray.chr_x_label / chr_y_label: cached in meta on first use *)
MetaVal(o, key) == (CHOOSE kv \in o.meta : kv[1] = key)[2]
HasMeta(o, key) == \E kv \in o.meta : kv[1] = key
FirstIsChr(w, o) == StartsWithSub(NameOf(w, Cell(o, 1, "chromosome")), txt_chr)     \* .startswith("chr")
XLabel(w, o) ==    \* [val, o']: val 0 = "", 1 = "X", 2 = "chrX"; o' = receiver with the label cached
    IF HasMeta(o, "chr_x") THEN [val |-> MetaVal(o, "chr_x"), o |-> o]
    ELSE IF N(o) > 0 THEN LET v == IF FirstIsChr(w, o) THEN 2 ELSE 1
                          IN [val |-> v, o |-> [o EXCEPT !.meta = @ \cup {<<"chr_x", v>>}]]
    ELSE [val |-> 0, o |-> o]
YLabel(w, o) ==
    IF HasMeta(o, "chr_y") THEN [val |-> MetaVal(o, "chr_y"), o |-> o]
    ELSE IF N(o) > 0 THEN LET x == XLabel(w, o)
                              v == IF x.val = 2 THEN 2 ELSE 1      \* "chrY" iff chr_x_label starts with "chr"
                          IN [val |-> v, o |-> [x.o EXCEPT !.meta = @ \cup {<<"chr_y", v>>}]]
    ELSE [val |-> 0, o |-> o]
txt_X == <<88>>   txt_Y == <<89>>   txt_chrX == <<99, 104, 114, 88>>   txt_chrY == <<99, 104, 114, 89>>
LabelText(val, one, two) == IF val = 1 THEN one ELSE IF val = 2 THEN two ELSE <<>>
(* a cached value the model cannot interpret (val = 0 from a foreign meta entry) never matches *)
XMask(w, o, val) == [k \in Idx(o.rows) |-> IF val \in {1, 2} /\ Cell(o, k, "chromosome") > 0
                                                /\ NameOf(w, Cell(o, k, "chromosome")) = LabelText(val, txt_X, txt_chrX)
                                             THEN 1 ELSE 0]
YMask(w, o, val) == [k \in Idx(o.rows) |-> IF val \in {1, 2} /\ Cell(o, k, "chromosome") > 0
                                                /\ NameOf(w, Cell(o, k, "chromosome")) = LabelText(val, txt_Y, txt_chrY)
                                             THEN 1 ELSE 0]

(* ---- one operator per public method --------------------------------------------------------- *)
DS(w, k) == Worlds[w].ds[k]
DSMeta(d) == {d.meta[j] : j \in Idx(d.meta)}
ColLess(w, c1, c2) == SeqLess(Worlds[w].colcodes[c1], Worlds[w].colcodes[c2])      \* Python sorted() on str
SortColumns(w, o) ==     \* required columns per class definition, then sorted(extra columns)
    LET req == ReqCols(o.cls)
        extra == SelectSeq(o.cols, LAMBDA c : ~HasCol(req, c))
        new == req \o StableSortBy(extra, LAMBDA a, b : ColLess(w, a, b))
    IN [o EXCEPT !.cols = new, !.rows = [k \in Idx(o.rows) |-> [j \in Idx(new) |-> o.rows[k][ColPos(o.cols, new[j])]]]]

FilterKeep(w, o, p, k) ==
    CASE p[1] = 1 -> Cell(o, k, "chromosome") = p[2]                               \* chromosome=<name>
      [] p[1] = 2 -> Cell(o, k, "gene") = p[2]                                     \* gene=<g>
      [] p[1] = 3 -> Cell(o, k, "start") > p[2]                                    \* func: row.start > t
      [] p[1] = 4 -> Cell(o, k, "start") > p[2] /\ Cell(o, k, "chromosome") = p[3] \* func and chromosome=
      [] OTHER    -> TRUE                                                          \* no condition

ConcatOthers(kind, recv, arg) ==
    CASE kind = 0 -> <<>> [] kind = 1 -> <<arg>> [] kind = 2 -> <<arg, recv>> [] kind = 3 -> <<arg, arg>>
      [] OTHER -> <<recv, arg>>
(* pd.concat(tables, ignore_index=True) of tables with the same column SET: columns in the first  *)
(* table's order                                                                                  *)
ConcatRows(cols, tabs) ==
    FlattenSeq([q \in Idx(tabs) |-> [k \in Idx(tabs[q].rows) |-> [j \in Idx(cols) |-> Cell(tabs[q], k, cols[j])]]])
SameColSet(x, y) == Range(x.cols) = Range(y.cols)

LabelOf(w, o, k) == NameOf(w, Cell(o, k, "chromosome")) \o <<ch_colon>> \o IntText(Cell(o, k, "start") + 1)
                    \o <<ch_minus>> \o IntText(Cell(o, k, "end"))

Step(w, objs, al, ev) ==
    LET m == ev.m  p == ev.p  cs == ev.cs  res == ev.res
        o == TLCEval(IF ev.recv = "" THEN Blank("GA", {}) ELSE objs[ev.recv])
        a == TLCEval(IF ev.arg = "" THEN Blank("GA", {}) ELSE objs[ev.arg])
        n == N(o)
    IN
    CASE m = "new_none" -> NewObj(objs, al, res, Ctor(ClsOf(p[1]), <<>>, <<>>, <<>>, {}))
      [] m = "new_rows" ->          \* cls.from_rows(rows, columns, meta)
            LET d == DS(w, p[2]) IN
            NewObj(objs, al, res, Ctor(ClsOf(p[1]), d.cols, d.rows, DefaultIndex(Len(d.rows)), DSMeta(d)))
      [] m = "new_cols" ->          \* cls.from_columns(dict in the dataset's column order, meta): ctor, then sort_columns()
            LET d == DS(w, p[2])
                c == Ctor(ClsOf(p[1]), d.cols, d.rows, DefaultIndex(Len(d.rows)), DSMeta(d))
            IN IF c.err # "" THEN Fail(objs, al, c.err)
               ELSE NewObj(objs, al, res, [c EXCEPT !.st = SortColumns(w, c.st)])
      [] m = "as_columns" ->        \* self.__class__.from_columns(columns, self.meta)
            LET d == DS(w, p[1])
                c == Ctor(o.cls, d.cols, d.rows, DefaultIndex(Len(d.rows)), o.meta)
            IN IF c.err # "" THEN Fail(objs, al, c.err)
               ELSE NewObj(objs, al, res, [c EXCEPT !.st = SortColumns(w, c.st)])
      [] m = "as_dataframe" ->      \* self.as_dataframe(arg.data, reset_index=p[1])
            NewObj(objs, al, res, Ctor(o.cls, a.cols, a.rows, IF p[1] = 1 THEN DefaultIndex(N(a)) ELSE a.index, o.meta))
      [] m = "as_rows" ->           \* self.from_rows(rows, columns=self.data.columns, meta_dict=self.meta)
            LET d == DS(w, p[1]) IN
            IF d.rows # <<>> /\ Len(d.rows[1]) # Len(o.cols) THEN Fail(objs, al, "ValueError")
            ELSE NewObj(objs, al, res, Ctor(o.cls, o.cols, d.rows, DefaultIndex(Len(d.rows)), o.meta))
      (* ---- __getitem__ ---- *)
      [] m = "getitem_int" ->       \* self.data.iloc[k]: by POSITION; the Series is named by the row's label
            LET k == PyPos(p[1], n) IN
            IF k \in 1..n THEN Observe(objs, al, RetVW(o.rows[k], <<o.index[k]>>)) ELSE Fail(objs, al, "IndexError")
      [] m = "getitem_col" ->
            IF HasCol(o.cols, cs[1]) THEN Observe(objs, al, RetVW(Col(o, cs[1]), o.index)) ELSE Fail(objs, al, "KeyError")
      [] m = "getitem_cell" ->      \* self.data.loc[label, column]: by LABEL
            IF HasCol(o.cols, cs[1]) /\ \E k \in 1..n : o.index[k] = p[1]
            THEN Observe(objs, al, RetV(<<Cell(o, CHOOSE k \in 1..n : o.index[k] = p[1], cs[1])>>))
            ELSE Fail(objs, al, "KeyError")
      [] m = "getitem_slice" -> NewObj(objs, al, res, SubObj(o, SlicePos(p[1], n)))
      [] m = "getitem_mask" ->      \* boolean list of the array's length; an empty list takes the "empty" branch
            IF n = 0 THEN NewObj(objs, al, res, Ctor(o.cls, o.cols, <<>>, <<>>, o.meta))
            ELSE NewObj(objs, al, res, SubObj(o, MaskPos(p[1], n)))
      [] m = "getitem_none" ->      \* index is None or len(index) == 0: pd.DataFrame(columns=self.data.columns)
            NewObj(objs, al, res, Ctor(o.cls, o.cols, <<>>, <<>>, o.meta))
      [] m = "getitem_ints" ->      \* self.data[<sequence of ints>] looks the integers up as COLUMN names
            Fail(objs, al, "KeyError")
      (* ---- __setitem__ ---- *)
      [] m = "setitem_int" ->       \* self.data.iloc[k] = row
            LET k == PyPos(p[1], n) IN
            IF k \in 1..n THEN InPlace(objs, al, ev.recv, [o EXCEPT !.rows[k] = LitRow(o.cols)], NoRet)
            ELSE Fail(objs, al, "IndexError")
      [] m = "setitem_col" ->       \* self.data[c] = list | scalar;  an empty list makes the column float64
            LET o2 == SetCol(o, cs[1], IF p[1] = 1 THEN [k \in 1..n |-> LitCell(cs[1])] ELSE LitCol(cs[1], n))
                req == ReqCols(o.cls)
            IN InPlace(objs, al, ev.recv,
                       IF n = 0 /\ p[1] = 0 /\ HasCol(req, cs[1])
                       THEN [o2 EXCEPT !.dt = [q \in Idx(req) |-> IF req[q] = cs[1] THEN "float64" ELSE o.dt[q]]] ELSE o2, NoRet)
      [] m = "setitem_cell" ->      \* self.data.loc[label, c] = v
            IF \E k \in 1..n : o.index[k] = p[1]
            THEN LET k == CHOOSE k \in 1..n : o.index[k] = p[1] IN
                 InPlace(objs, al, ev.recv, [o EXCEPT !.rows[k][ColPos(o.cols, cs[1])] = p[2]], NoRet)
            ELSE Fail(objs, al, "ANY")
      [] m = "setitem_maskcell" ->  \* self.data.loc[mask, c] = v
            InPlace(objs, al, ev.recv,
                    [o EXCEPT !.rows = [k \in 1..n |-> IF Bit(p[1], k) THEN [o.rows[k] EXCEPT ![ColPos(o.cols, cs[1])] = p[2]]
                                                       ELSE o.rows[k]]], NoRet)
      [] m = "setitem_slice" ->     \* self.data[slice] = row
            LET K == Range(SlicePos(p[1], n)) IN
            IF n = 0 THEN Fail(objs, al, "MAYBE")      \* on an empty frame pandas fails or not, depending on the column dtypes
            ELSE
            InPlace(objs, al, ev.recv, [o EXCEPT !.rows = [k \in 1..n |-> IF k \in K THEN LitRow(o.cols) ELSE o.rows[k]]], NoRet)
      [] m = "setitem_maskrows" ->  \* self.data[mask] = row
            InPlace(objs, al, ev.recv, [o EXCEPT !.rows = [k \in 1..n |-> IF Bit(p[1], k) THEN LitRow(o.cols) ELSE o.rows[k]]], NoRet)
      (* ---- container protocol ---- *)
      [] m = "len" -> Observe(objs, al, RetV(<<n>>))
      [] m = "bool" -> Observe(objs, al, RetV(<<IF n > 0 THEN 1 ELSE 0>>))
      [] m = "contains" -> Observe(objs, al, RetV(<<IF HasCol(o.cols, cs[1]) THEN 1 ELSE 0>>))
      [] m = "iter" -> Observe(objs, al, [NoRet EXCEPT !.t = o.rows])
      [] m = "as_series" ->         \* pd.Series(arraylike, index=self.data.index)
            Observe(objs, al, RetVW(LitCol("zz", n), o.index))
      [] m = "eq" ->                \* isinstance(other, self.__class__) and self.data.equals(other.data); Python tries the
                                    \* SUBCLASS's reflected __eq__ first, so GA == CNA is decided by CNA.__eq__ -> False
            LET same == o.cls = a.cls /\ o.cols = a.cols /\ o.rows = a.rows /\ o.index = a.index
                dcare == o.cls = a.cls /\ o.cols = a.cols /\ n = 0 /\ N(a) = 0 /\ o.cols # ReqCols(o.cls)
            IN [Observe(objs, al, RetV(<<IF same THEN 1 ELSE 0>>)) EXCEPT !.dc = dcare]   \* empty: dtypes of extra columns decide
      (* ---- traversal ---- *)
      [] m = "autosomes" ->
            LET auto(k) == IsAutoCell(w, Cell(o, k, "chromosome"))
                also(k) == p[1] \in {1, 2} /\ Cell(o, k, "chromosome") = p[2]
            IN IF ~\E k \in 1..n : auto(k)
               THEN [Out(objs @@ (res :> o), al @@ (res :> al[ev.recv]), "", NoRet) EXCEPT !.alias = TRUE]   \* return self
               ELSE NewObj(objs, al, res, SubObj(o, Where(n, LAMBDA k : auto(k) \/ also(k))))
      [] m = "by_chromosome" ->
            LET gs == ChromGroups(o) IN
            Observe(objs, al, [NoRet EXCEPT !.g = [q \in Idx(gs) |-> [key |-> gs[q], st |-> SubObj(o, GroupPos(o, gs[q])).st]]])
      [] m = "by_arm" ->            \* first: self.data.chromosome = self.data.chromosome.astype(str)  (in place!)
            LET oc == TLCEval([o EXCEPT !.rows = [k \in 1..n |-> [o.rows[k] EXCEPT ![ColPos(o.cols, "chromosome")] = Abs(@)]],
                                        !.dt = DtOf(o.cls, o.cols, <<>>)])
                gs == ChromGroups(oc)
                arms(c) == LET K == GroupPos(oc, c)  s == ArmSplit(oc, K, p[1], p[2]) IN
                           IF s = 0 THEN <<[key |-> c, st |-> SubObj(oc, K).st]>>
                           ELSE <<[key |-> c, st |-> SubObj(oc, SubSeq(K, 1, s)).st],
                                  [key |-> c, st |-> SubObj(oc, SubSeq(K, s + 1, Len(K))).st]>>
            IN InPlace(objs, al, ev.recv, oc, [NoRet EXCEPT !.g = FlattenSeq([q \in Idx(gs) |-> arms(gs[q])])])
      [] m = "coords" ->
            LET cols == <<"chromosome", "start", "end">> \o cs IN
            IF \E j \in Idx(cs) : ~HasCol(o.cols, cs[j]) THEN Fail(objs, al, "KeyError")
            ELSE Observe(objs, al, [NoRet EXCEPT !.t = [k \in 1..n |-> [j \in Idx(cols) |-> Cell(o, k, cols[j])]]])
      [] m = "labels" ->            \* DataFrame.apply(to_label, axis=1)  (on an empty frame apply may return a DataFrame)
            Observe(objs, al, [NoRet EXCEPT !.t = [k \in 1..n |-> LabelOf(w, o, k)], !.w = o.index])
      (* ---- modification ---- *)
      [] m = "add" ->
            IF ~IsInst(a.cls, o.cls) THEN Fail(objs, al, "ValueError")
            ELSE IF N(a) = 0 THEN Observe(objs, al, NoRet)                \* nothing happens: not even the sort
            ELSE InPlace(objs, al, ev.recv,
                         Sorted(w, [o EXCEPT !.rows = ConcatRows(o.cols, <<o, a>>), !.index = DefaultIndex(n + N(a)),
                                             !.dt = DtOf(o.cls, o.cols, <<>>)]), NoRet)
      [] m = "concat" ->
            LET names == ConcatOthers(p[1], ev.recv, ev.arg)
                tabs == [q \in Idx(names) |-> objs[names[q]]]
            IN IF tabs = <<>> THEN Fail(objs, al, "ValueError")           \* pd.concat([]) : No objects to concatenate
               ELSE LET cols == tabs[1].cols
                        rows == ConcatRows(cols, tabs)
                        c == Ctor(o.cls, cols, rows, DefaultIndex(Len(rows)), o.meta)
                    IN IF c.err # "" THEN Fail(objs, al, c.err)
                       ELSE NewObj(objs, al, res, [c EXCEPT !.st = Sorted(w, c.st)])
      [] m = "copy" -> NewObj(objs, al, res, Ctor(o.cls, o.cols, o.rows, o.index, o.meta))
      [] m = "add_columns" ->       \* self.as_dataframe(self.data.assign(**columns))
            LET RECURSIVE Assign(_, _)
                Assign(x, j) == IF j > Len(cs) THEN x ELSE Assign(SetCol(x, cs[j], LitCol(cs[j], n)), j + 1)
                x == Assign(o, 1)
            IN NewObj(objs, al, res, Ctor(o.cls, x.cols, x.rows, x.index, x.meta))
      [] m = "keep_columns" ->      \* self.data.columns.intersection(colnames): in the order of self.data.columns
            LET kept == SelectSeq(o.cols, LAMBDA c : HasCol(cs, c))
                rows == [k \in 1..n |-> [j \in Idx(kept) |-> Cell(o, k, kept[j])]]
            IN NewObj(objs, al, res, Ctor(o.cls, kept, rows, o.index, o.meta))
      [] m = "drop_extra_columns" ->    \* self.data.loc[:, self._required_columns]: in CLASS order
            LET req == ReqCols(o.cls)
                rows == [k \in 1..n |-> [j \in Idx(req) |-> Cell(o, k, req[j])]]
            IN NewObj(objs, al, res, Ctor(o.cls, req, rows, o.index, o.meta))
      [] m = "filter" ->
            IF p[1] = 6 \/ (p[1] = 2 /\ ~HasCol(o.cols, "gene")) THEN Fail(objs, al, "AssertionError")    \* assert key in self
            ELSE IF p[1] = 4 /\ n = 0 THEN Fail(objs, al, "KeyError")     \* ... and the keyword lookup then finds no column
            ELSE IF p[1] = 3 /\ n = 0
                 THEN NewObj(objs, al, res, Ctor(o.cls, <<>>, <<>>, <<>>, o.meta))     \* apply() on an empty frame: columns lost
            ELSE NewObj(objs, al, res, SubObj(o, Where(n, LAMBDA k : FilterKeep(w, o, p, k))))
      [] m = "shuffle" ->
            IF n > MaxShuffle THEN [Observe(objs, al, NoRet) EXCEPT !.dc = TRUE]
            ELSE LET ord == ShuffleOrder(n) IN
                 InPlace(objs, al, ev.recv, Sel(o, [k \in 1..n |-> ord[k] + 1]), RetV(ord))
      [] m = "sort" ->
            IF Mixed(o) THEN Fail(objs, al, "AttributeError")             \* sorter_chrom(<int>): no .lower()
            ELSE InPlace(objs, al, ev.recv, Sorted(w, o), NoRet)
      [] m = "sort_columns" -> InPlace(objs, al, ev.recv, SortColumns(w, o), NoRet)
      (* ---- CopyNumArray ---- *)
      [] m = "log2_get" -> Observe(objs, al, RetVW(Col(o, "log2"), o.index))
      [] m = "log2_set" -> InPlace(objs, al, ev.recv,
                                   SetCol(o, "log2", IF p[1] = 1 THEN [k \in 1..n |-> LitCell("log2")] ELSE LitCol("log2", n)), NoRet)
      [] m = "drop_low_coverage" ->  \* log2 < NULL_LOG2_COVERAGE - MIN_REF_COVERAGE = -15, or depth == 0;  self[~drop_idx]
            LET drop(k) == Cell(o, k, "log2") < -120 \/ (HasCol(o.cols, "depth") /\ Cell(o, k, "depth") = 0) IN
            IF n = 0 THEN NewObj(objs, al, res, Ctor(o.cls, o.cols, <<>>, <<>>, o.meta))
            ELSE NewObj(objs, al, res, SubObj(o, Where(n, LAMBDA k : ~drop(k))))
      [] m = "chr_x_label" -> LET x == XLabel(w, o) IN InPlace(objs, al, ev.recv, x.o, RetV(LabelText(x.val, txt_X, txt_chrX)))
      [] m = "chr_y_label" -> LET y == YLabel(w, o) IN InPlace(objs, al, ev.recv, y.o, RetV(LabelText(y.val, txt_Y, txt_chrY)))
      [] m = "chr_x_filter" -> LET x == XLabel(w, o) IN InPlace(objs, al, ev.recv, x.o, RetV(XMask(w, o, x.val)))
      [] m = "expect_flat" ->       \* haploid-x reference: X and Y single copy; else only Y
            LET x == IF p[1] = 1 THEN XLabel(w, o) ELSE [val |-> 0, o |-> o]
                y == YLabel(w, x.o)
                xm == XMask(w, o, x.val)  ym == YMask(w, o, y.val)
            IN InPlace(objs, al, ev.recv, y.o,
                       RetV([k \in 1..n |-> IF ym[k] = 1 \/ (p[1] = 1 /\ xm[k] = 1) THEN -8 ELSE 0]))
      [] m = "residuals" ->         \* per chromosome group (first appearance): log2 - median(log2); pd.concat keeps labels
            LET gs == ChromGroups(o)
                part(c) == LET K == GroupPos(o, c)
                               vals == [j \in Idx(K) |-> Cell(o, K[j], "log2")]
                               med == MedianOf(vals)
                           IN [j \in Idx(K) |-> <<vals[j] - med, o.index[K[j]]>>]
                all == FlattenSeq([q \in Idx(gs) |-> part(gs[q])])
            IN Observe(objs, al, RetVW([j \in Idx(all) |-> all[j][1]], [j \in Idx(all) |-> all[j][2]]))
      [] OTHER -> Fail(objs, al, "MODEL-UNKNOWN-METHOD")

(* ================================================================= P-layer ================== *)
(* A step record r = [w, ev, pre, post, copies]:                                                  *)
(*   ev     the call (m, recv, arg, res, p, cs) with its observed outcome (err, ret, alias)        *)
(*   pre    objects before the call, post  objects after it (name -> object state)                *)
(*   copies set of <<x, y>>: y was made by x.copy()  (history, for "independent copy")            *)
RowMap(o, k) == [c \in Range(o.cols) |-> Cell(o, k, c)]
RowMaps(o) == [k \in Idx(o.rows) |-> RowMap(o, k)]
Count(s, x) == Cardinality({k \in Idx(s) : s[k] = x})
SameBag(s1, s2) == Len(s1) = Len(s2) /\ \A x \in Range(s1) \cup Range(s2) : Count(s1, x) = Count(s2, x)
ColMap(o) == [c \in Range(o.cols) |-> Col(o, c)]
IsSubseqAt(sub, s, K) ==    \* sub = s at the strictly increasing positions K
    /\ Len(K) = Len(sub) /\ \A j \in Idx(K) : K[j] \in Idx(s) /\ sub[j] = s[K[j]]
    /\ \A j \in 1..(Len(K) - 1) : K[j] < K[j + 1]
Recv(r) == r.pre[r.ev.recv]
Arg(r) == r.pre[r.ev.arg]
Res(r) == r.post[r.ev.res]
Ok(r) == r.ev.err = ""
HasRes(r) == Ok(r) /\ r.ev.res \in DOMAIN r.post
Unique(s) == \A j, k \in Idx(s) : j # k => s[j] # s[k]
ChromName(r, o, k) == NameOf(r.w, Cell(o, k, "chromosome"))

(* the documented chromosome order.  sorter_chrom: "Sort by integers first, then letters or        *)
(* strings. The prefix "chr" (case-insensitive), if present, is stripped automatically for         *)
(* sorting.  E.g. chr1 < chr2 < chr10 < chrX < chrY < chrM"                                        *)
PlainInt(name) == LET s == StripChr(name) IN s # <<>> /\ Len(s) <= 8 /\ AllChars(s, IsDigit)
DocLess(a, b) ==
    LET x == StripChr(a)  y == StripChr(b) IN
    \/ PlainInt(a) /\ PlainInt(b) /\ DigitsVal(x) < DigitsVal(y)
    \/ PlainInt(a) /\ ~PlainInt(b)
    \/ x = <<88>> /\ y \in {<<89>>, <<77>>}
    \/ x = <<89>> /\ y = <<77>>

Mutators == {"setitem_int", "setitem_col", "setitem_cell", "setitem_maskcell", "setitem_slice", "setitem_maskrows",
             "add", "shuffle", "sort", "sort_columns", "log2_set"}

Clauses(r) ==
    LET m == r.ev.m IN
    (CASE m \in {"new_rows", "new_cols"} -> {"ctor_requires_columns", "ctor_holds_given_data"}
       [] m = "new_none"      -> {"ctor_requires_columns"}
       [] m = "as_columns"    -> {"wrap_keeps_meta", "wrap_holds_given_data"}
       [] m = "as_dataframe"  -> {"wrap_keeps_meta", "wrap_holds_given_data", "ctor_requires_columns"}
       [] m = "as_rows"       -> {"wrap_keeps_meta", "wrap_holds_given_data"}
       [] m = "getitem_int"   -> {"getitem_int_row"}
       [] m = "getitem_col"   -> {"getitem_str_column"}
       [] m = "getitem_mask"  -> {"getitem_mask_rows"}
       [] m = "getitem_ints"  -> {"getitem_ints_rows"}
       [] m \in {"setitem_int", "setitem_col", "setitem_cell", "setitem_maskcell"} -> {"setitem_assigns"}
       [] m = "autosomes"     -> {"autosomes_integer_names"}
       [] m = "by_chromosome" -> {"bychrom_partition"}
       [] m = "by_arm"        -> {"byarm_partition"}
       [] m = "coords"        -> {"coords_rows"}
       [] m = "as_series"     -> {"as_series_index"}
       [] m = "labels"        -> {"labels_text"}
       [] m = "add"           -> {"add_rejects_non_instance", "add_combines", "add_in_place"}
       [] m = "concat"        -> {"concat_rows", "concat_keeps_meta"}
       [] m = "copy"          -> {"copy_equal", "new_object_receiver_untouched"}
       [] m = "add_columns"   -> {"addcols_columns", "new_object_receiver_untouched"}
       [] m = "keep_columns"  -> {"keepcols_subset"}
       [] m = "drop_extra_columns" -> {"dropextra_required_only", "new_object_receiver_untouched"}
       [] m = "filter"        -> {"filter_rows", "filter_keeps_columns"}
       [] m = "shuffle"       -> {"shuffle_permutation_in_place"}
       [] m = "sort"          -> {"sort_permutation_in_place", "sort_order"}
       [] m = "sort_columns"  -> {"sortcols_required_first", "sortcols_keeps_values"}
       [] m = "chr_x_label"   -> {"chrx_label_doc"}
       [] m = "chr_x_filter"  -> {"chrx_filter_doc"}
       [] m = "drop_low_coverage" -> {"dlc_subsequence"}
       [] m = "residuals"     -> {"resid_length", "resid_chrom_median"}
       [] m = "expect_flat"   -> {"flat_doc"}
       [] OTHER               -> {})
    \cup (IF r.ev.recv # "" /\ r.copies # {} THEN {"copy_independent"} ELSE {})

GivenDs(r) == DS(r.w, IF r.ev.m \in {"new_rows", "new_cols"} THEN r.ev.p[2] ELSE r.ev.p[1])
(* a dataset passed as it is written: str chromosome names, integer coordinates (flav "fc"/"sc" pass the       *)
(* coordinates as floats / digit strings, negative ids pass chromosome names as Python ints: A-layer only)     *)
PlainDs(d) == /\ d.flav = "plain"
              /\ ~HasCol(d.cols, "chromosome") \/ \A k \in Idx(d.rows) : d.rows[k][ColPos(d.cols, "chromosome")] > 0
TableIs(o, cols, rows) ==       \* the object holds exactly this table (column order free)
    /\ Range(o.cols) = Range(cols) /\ Len(o.cols) = Len(cols) /\ Len(o.rows) = Len(rows)
    /\ \A c \in Range(cols) : Col(o, c) = [k \in Idx(rows) |-> rows[k][ColPos(cols, c)]]
GroupsOf(r) == r.ev.ret.g
Concatenation(seqs) == FlattenSeq(seqs)

Holds(c, r) ==
    LET ev == r.ev  m == ev.m  p == ev.p  cs == ev.cs IN
    CASE c = "ctor_requires_columns" ->
            (* error message of __init__: "data table must have at least columns {required}"; class   *)
            (* docstring of CopyNumArray: "Required columns: chromosome, start, end, gene, log2"       *)
            LET cls == IF m \in {"new_rows", "new_cols", "new_none"} THEN ClsOf(p[1]) ELSE Recv(r).cls
                cols == IF m = "new_none" THEN <<>> ELSE IF m = "as_dataframe" THEN Arg(r).cols ELSE GivenDs(r).cols
            IN /\ (cols # <<>> /\ MissingReq(cls, cols)) => ev.err = "ValueError"
               /\ HasRes(r) => ~MissingReq(cls, Res(r).cols)
      [] c = "ctor_holds_given_data" ->
            (* from_rows: "Create a new instance from a list of rows, as tuples or arrays."            *)
            (* from_columns: "Create a new instance from column arrays, given as a dict."              *)
            LET d == GivenDs(r) IN
            (PlainDs(d) /\ d.cols # <<>> /\ ~MissingReq(ClsOf(p[1]), d.cols)) =>
                /\ Ok(r) /\ Res(r).cls = ClsOf(p[1]) /\ TableIs(Res(r), d.cols, d.rows)
                /\ (m = "new_rows" => Res(r).cols = d.cols)
      [] c = "wrap_keeps_meta" ->
            (* as_columns / as_dataframe / as_rows: "Wrap the ... in this instance's metadata."        *)
            HasRes(r) => MetaKeys(Res(r)) = MetaKeys(Recv(r)) /\ Res(r).cls = Recv(r).cls
      [] c = "wrap_holds_given_data" ->
            HasRes(r) =>
                CASE m = "as_dataframe" -> ~Mixed(Arg(r)) => TableIs(Res(r), Arg(r).cols, Arg(r).rows)
                  [] m = "as_rows"      -> PlainDs(GivenDs(r)) => TableIs(Res(r), Recv(r).cols, GivenDs(r).rows)
                  [] OTHER              -> PlainDs(GivenDs(r)) => TableIs(Res(r), GivenDs(r).cols, GivenDs(r).rows)
      [] c = "getitem_int_row" ->
            (* __getitem__: "single integer: a row, as pd.Series" *)
            (0 <= p[1] /\ p[1] < N(Recv(r))) => Ok(r) /\ ev.ret.v = Recv(r).rows[p[1] + 1]
      [] c = "getitem_str_column" ->
            (* __getitem__: "string row name: a column, as pd.Series" *)
            HasCol(Recv(r).cols, cs[1]) => Ok(r) /\ ev.ret.v = Col(Recv(r), cs[1])
      [] c = "getitem_mask_rows" ->
            (* __getitem__: "a boolean array: masked rows, as_dataframe" *)
            /\ Ok(r)
            /\ TableIs(Res(r), Recv(r).cols, Sel(Recv(r), MaskPos(p[1], N(Recv(r)))).rows)
            /\ MetaKeys(Res(r)) = MetaKeys(Recv(r))
      [] c = "getitem_ints_rows" ->
            (* __getitem__: "tuple of integers: selected rows, as_dataframe" *)
            LET pos == [j \in 1..(Len(p) - 1) |-> p[j + 1] + 1] IN
            (\A j \in Idx(pos) : pos[j] \in 1..N(Recv(r))) =>
                Ok(r) /\ TableIs(Res(r), Recv(r).cols, Sel(Recv(r), pos).rows)
      [] c = "setitem_assigns" ->
            (* __setitem__: "Assign to a portion of the data." -- afterwards the addressed portion holds the value *)
            LET o == Recv(r)  o2 == r.post[ev.recv]  n == N(o) IN
            CASE m = "setitem_int" -> (0 <= p[1] /\ p[1] < n) =>
                        Ok(r) /\ N(o2) = n /\ RowMap(o2, p[1] + 1) = [cc \in Range(o.cols) |-> LitCell(cc)]
              [] m = "setitem_col" -> Ok(r) /\ HasCol(o2.cols, cs[1])
                        /\ Col(o2, cs[1]) = (IF p[1] = 1 THEN [k \in 1..n |-> LitCell(cs[1])] ELSE LitCol(cs[1], n))
              [] m = "setitem_cell" -> (Unique(o.index) /\ \E k \in 1..n : o.index[k] = p[1]) =>
                        Ok(r) /\ o2.index = o.index /\ HasCol(o2.cols, cs[1])
                        /\ Cell(o2, CHOOSE k \in 1..n : o.index[k] = p[1], cs[1]) = p[2]
              [] OTHER -> Ok(r) /\ N(o2) = n /\ HasCol(o2.cols, cs[1]) /\ \A k \in 1..n : Bit(p[1], k) => Cell(o2, k, cs[1]) = p[2]
      [] c = "autosomes_integer_names" ->
            (* autosomes: "Select chromosomes w/ integer names, ignoring any 'chr' prefixes." *)
            (* (a name like "CHR3" is an integer name only if the prefix is ignored case-insensitively: the      *)
            (* docstring leaves that open, so such rows may be selected or not)                                 *)
            LET o == Recv(r)
                auto(k) == IsAutoCell(r.w, Cell(o, k, "chromosome"))
                maybe(k) == ~auto(k) /\ PlainInt(ChromName(r, o, k))
            IN (p[1] = 0 /\ \E k \in Idx(o.rows) : auto(k)) =>
                /\ Ok(r)
                /\ \E K \in SUBSET {k \in Idx(o.rows) : maybe(k)} :
                       TableIs(Res(r), o.cols, Sel(o, Where(N(o), LAMBDA k : auto(k) \/ k \in K)).rows)
      [] c = "bychrom_partition" ->
            (* by_chromosome: "Iterate over bins grouped by chromosome name." -- one group per name, holding exactly *)
            (* the rows of that name, in their order; every row is in its name's group                              *)
            LET o == Recv(r)  g == GroupsOf(r) IN
            /\ Ok(r) /\ Unique([q \in Idx(g) |-> g[q].key])
            /\ {g[q].key : q \in Idx(g)} = Range(Col(o, "chromosome"))
            /\ \A q \in Idx(g) : TableIs(g[q].st, o.cols, Sel(o, GroupPos(o, g[q].key)).rows)
      [] c = "byarm_partition" ->
            (* by_arm: "Iterate over bins grouped by chromosome arm (inferred)." -- each chromosome's rows, in order, *)
            (* are split into one or two consecutive groups                                                          *)
            LET o == Recv(r)  g == GroupsOf(r)  keys == [q \in Idx(g) |-> g[q].key] IN
            /\ Ok(r) /\ Range(keys) = Range(Col(o, "chromosome"))
            /\ \A c2 \in Range(keys) :
                 LET Q == SortedSeqOfSet({q \in Idx(g) : keys[q] = c2}) IN
                 /\ Len(Q) \in {1, 2} /\ (Len(Q) = 2 => Q[2] = Q[1] + 1)
                 /\ \A q \in Range(Q) : g[q].st.cols = o.cols
                 /\ Concatenation([j \in Idx(Q) |-> g[Q[j]].st.rows]) = Sel(o, GroupPos(o, c2)).rows
      [] c = "coords_rows" ->
            (* coords: "Iterate over plain coordinates of each bin: chromosome, start, end. ... also: Also include   *)
            (* these columns from `self`, in addition to chromosome, start, and end."                              *)
            LET o == Recv(r)  cols == <<"chromosome", "start", "end">> \o cs IN
            (\A j \in Idx(cs) : HasCol(o.cols, cs[j])) =>
                Ok(r) /\ ev.ret.t = [k \in Idx(o.rows) |-> [j \in Idx(cols) |-> Cell(o, k, cols[j])]]
      [] c = "as_series_index" ->
            (* as_series: "Coerce `arraylike` to a Series with this instance's index." *)
            Ok(r) /\ ev.ret.w = Recv(r).index /\ ev.ret.v = LitCol("zz", N(Recv(r)))
      [] c = "labels_text" ->
            (* labels: "Get chromosomal coordinates as genomic range labels."; rangelabel: "A range specification  *)
            (* should look like chromosome:start-end, e.g. chr1:1234-5678, with 1-indexed integer coordinates."     *)
            LET o == Recv(r) IN
            N(o) > 0 => Ok(r) /\ ev.ret.t = [k \in Idx(o.rows) |-> LabelOf(r.w, o, k)]
      [] c = "add_rejects_non_instance" ->
            (* add: error message "Argument (type ...) is not a {self.__class__} instance" *)
            ~IsInst(Arg(r).cls, Recv(r).cls) => ev.err = "ValueError" /\ r.post[ev.recv] = Recv(r)
      [] c = "add_combines" ->
            (* add: "Combine this array's data with another GenomicArray (in-place)." *)
            IsInst(Arg(r).cls, Recv(r).cls) => Ok(r) /\ SameBag(RowMaps(r.post[ev.recv]), RowMaps(Recv(r)) \o RowMaps(Arg(r)))
      [] c = "add_in_place" ->
            IsInst(Arg(r).cls, Recv(r).cls) =>
                /\ r.post[ev.recv].cls = Recv(r).cls /\ MetaKeys(r.post[ev.recv]) = MetaKeys(Recv(r))
                /\ (r.al[ev.arg] # r.al[ev.recv] => r.post[ev.arg] = Arg(r))     \* (two names may be bound to one object)
      [] c = "concat_rows" ->
            (* concat: "Concatenate several GenomicArrays, keeping this array's metadata. This array's data table *)
            (* is not implicitly included in the result."                                                         *)
            LET names == ConcatOthers(p[1], ev.recv, ev.arg) IN
            (names # <<>> /\ ~MissingReq(Recv(r).cls, r.pre[names[1]].cols)) =>
                Ok(r) /\ SameBag(RowMaps(Res(r)), Concatenation([q \in Idx(names) |-> RowMaps(r.pre[names[q]])]))
      [] c = "concat_keeps_meta" -> HasRes(r) => MetaKeys(Res(r)) = MetaKeys(Recv(r))
      [] c = "copy_equal" ->
            (* copy: "Create an independent copy of this object." *)
            /\ Ok(r) /\ Res(r).cls = Recv(r).cls /\ Res(r).cols = Recv(r).cols /\ Res(r).rows = Recv(r).rows
            /\ MetaKeys(Res(r)) = MetaKeys(Recv(r)) /\ ~ev.alias
      [] c = "copy_independent" ->
            (* copy: "independent": no call on one of the two ever changes the other *)
            \A pr \in r.copies :
                /\ (r.al[pr[1]] = r.al[ev.recv] /\ r.al[pr[2]] # r.al[ev.recv]) => r.post[pr[2]] = r.pre[pr[2]]
                /\ (r.al[pr[2]] = r.al[ev.recv] /\ r.al[pr[1]] # r.al[ev.recv]) => r.post[pr[1]] = r.pre[pr[1]]
      [] c = "new_object_receiver_untouched" ->
            (* copy: "independent copy"; add_columns: "Add the given columns to a copy of this GenomicArray";     *)
            (* drop_extra_columns: "A new copy with only the minimal set of columns"                              *)
            r.post[ev.recv] = Recv(r) /\ (HasRes(r) => ~ev.alias)
      [] c = "addcols_columns" ->
            (* add_columns: "A new instance of `self` with the given columns included in the underlying dataframe." *)
            LET o == Recv(r) IN
            /\ Ok(r) /\ Res(r).cls = o.cls /\ Range(Res(r).cols) = Range(o.cols) \cup Range(cs)
            /\ \A cc \in Range(cs) : Col(Res(r), cc) = LitCol(cc, N(o))
            /\ \A cc \in Range(o.cols) \ Range(cs) : Col(Res(r), cc) = Col(o, cc)
      [] c = "keepcols_subset" ->
            (* keep_columns: "Extract a subset of columns, reusing this instance's metadata." *)
            HasRes(r) => LET o == Recv(r)  want == Range(o.cols) \cap Range(cs) IN
                /\ want # {} => (Range(Res(r).cols) = want /\ \A cc \in want : Col(Res(r), cc) = Col(o, cc))
                /\ MetaKeys(Res(r)) = MetaKeys(o)
      [] c = "dropextra_required_only" ->
            (* drop_extra_columns: "A new copy with only the minimal set of columns required by the class         *)
            (* (e.g. chromosome, start, end for GenomicArray; may be more for subclasses)."                       *)
            LET o == Recv(r)  req == ReqCols(o.cls) IN
            /\ Ok(r) /\ Res(r).cls = o.cls /\ Range(Res(r).cols) = Range(req) /\ Len(Res(r).cols) = Len(req)
            /\ \A cc \in Range(req) : Col(Res(r), cc) = Col(o, cc)
      [] c = "filter_rows" ->
            (* filter: "Take a subset of rows where the given condition is true. ... func: A boolean function which *)
            (* will be applied to each row to keep rows where the result is True. **kwargs: ... will keep rows     *)
            (* where the keyed field equals the specified value."                                                  *)
            LET o == Recv(r) IN
            (p[1] \in {1, 3, 4, 5} \/ (p[1] = 2 /\ HasCol(o.cols, "gene"))) =>
                /\ Ok(r) /\ N(Res(r)) = Cardinality({k \in Idx(o.rows) : FilterKeep(r.w, o, p, k)})
                /\ (N(Res(r)) > 0 => TableIs(Res(r), o.cols, Sel(o, Where(N(o), LAMBDA k : FilterKeep(r.w, o, p, k))).rows))
      [] c = "filter_keeps_columns" ->
            (* filter: "Returns GenomicArray: Subset of `self` where the specified condition is True." -- a subset *)
            (* of the rows of self has the columns of self                                                        *)
            HasRes(r) => Range(Res(r).cols) = Range(Recv(r).cols) /\ Res(r).cls = Recv(r).cls
      [] c = "shuffle_permutation_in_place" ->
            (* shuffle: "Randomize the order of bins in this array (in-place)." *)
            LET o == Recv(r)  o2 == r.post[ev.recv] IN
            Ok(r) /\ o2.cols = o.cols /\ SameBag(o2.rows, o.rows) /\ o2.meta = o.meta /\ o2.cls = o.cls
      [] c = "sort_permutation_in_place" ->
            (* sort: "Sort this array's bins in-place, with smart chromosome ordering." *)
            LET o == Recv(r)  o2 == r.post[ev.recv] IN
            Ok(r) /\ o2.cols = o.cols /\ SameBag(o2.rows, o.rows) /\ o2.meta = o.meta /\ o2.cls = o.cls
      [] c = "sort_order" ->
            (* chromosomes in the documented order (DocLess), rows of one chromosome by start, then end *)
            LET o2 == r.post[ev.recv] IN
            Ok(r) => \A i, j \in Idx(o2.rows) : i < j =>
                /\ ~DocLess(ChromName(r, o2, j), ChromName(r, o2, i))
                /\ Cell(o2, i, "chromosome") = Cell(o2, j, "chromosome") =>
                      \/ Cell(o2, i, "start") < Cell(o2, j, "start")
                      \/ Cell(o2, i, "start") = Cell(o2, j, "start") /\ Cell(o2, i, "end") <= Cell(o2, j, "end")
      [] c = "sortcols_required_first" ->
            (* sort_columns: "Sort this array's columns in-place, per class definition." *)
            LET o2 == r.post[ev.recv]  req == ReqCols(o2.cls) IN
            Ok(r) /\ Len(o2.cols) >= Len(req) /\ SubSeq(o2.cols, 1, Len(req)) = req
      [] c = "sortcols_keeps_values" -> Ok(r) => ColMap(r.post[ev.recv]) = ColMap(Recv(r)) /\ r.post[ev.recv].index = Recv(r).index
      [] c = "chrx_label_doc" ->
            (* chr_x_label: "The name of the X chromosome. This is either "X" or "chrX"." *)
            (N(Recv(r)) > 0 /\ ~HasMeta(Recv(r), "chr_x")) => Ok(r) /\ ev.ret.v \in {txt_X, txt_chrX}
      [] c = "chrx_filter_doc" ->
            (* chr_x_filter: "All regions on X, potentially without PAR1/2." *)
            LET o == Recv(r) IN
            Ok(r) /\ Len(ev.ret.v) = N(o)
            /\ \A k \in Idx(o.rows) : ev.ret.v[k] = 1 => ChromName(r, o, k) \in {txt_X, txt_chrX}
      [] c = "dlc_subsequence" ->
            (* drop_low_coverage: "Drop bins with extremely low log2 coverage or copy ratio values." -- bins are    *)
            (* only dropped: the result is a subsequence of the rows, with the columns of self                     *)
            LET o == Recv(r) IN
            /\ Ok(r) /\ (N(Res(r)) > 0 => Res(r).cols = o.cols)
            /\ \E K \in SUBSET Idx(o.rows) : Res(r).rows = Sel(o, SortedSeqOfSet(K)).rows
      [] c = "resid_length" ->
            (* residuals: "Residual log2 values from `self` relative to `segments`; same length as `self`." *)
            Ok(r) /\ Len(ev.ret.v) = N(Recv(r))
      [] c = "resid_chrom_median" ->
            (* residuals: "Difference in log2 value of each bin from its segment mean. ... If None, subtract each  *)
            (* chromosome's median."  (values are identified by their row label)                                   *)
            LET o == Recv(r) IN
            (Ok(r) /\ Len(ev.ret.v) = N(o) /\ Len(ev.ret.w) = N(o)) =>
                \A k \in Idx(o.rows) : \E j \in Idx(ev.ret.w) :
                    /\ ev.ret.w[j] = o.index[k]
                    /\ ev.ret.v[j] = Cell(o, k, "log2")
                          - MedianOf([q \in Idx(GroupPos(o, Cell(o, k, "chromosome"))) |->
                                         Cell(o, GroupPos(o, Cell(o, k, "chromosome"))[q], "log2")])
      [] c = "flat_doc" ->
            (* expect_flat_log2: "This is a neutral copy ratio at each autosome (log2 = 0.0) and sex chromosomes   *)
            (* based on whether the reference is male (XX or XY)."; code comments: "Single-copy X, Y" /             *)
            (* "Y will be all noise, so replace with 1 "flat" copy"                                                *)
            LET o == Recv(r) IN
            /\ Ok(r) /\ Len(ev.ret.v) = N(o)
            /\ \A k \in Idx(o.rows) :
                 /\ IsAutoCell(r.w, Cell(o, k, "chromosome")) => ev.ret.v[k] = 0
                 (* male reference: X and Y are single-copy (log2 = -1); female reference: X is two copies (0);  *)
                 (* what Y gets under a female reference is not documented (A-layer)                            *)
                 /\ (p[1] = 1 /\ ChromName(r, o, k) = (IF FirstIsChr(r.w, o) THEN txt_chrY ELSE txt_Y)) => ev.ret.v[k] = -8
                 /\ ChromName(r, o, k) = (IF FirstIsChr(r.w, o) THEN txt_chrX ELSE txt_X) =>
                        ev.ret.v[k] = (IF p[1] = 1 THEN -8 ELSE 0)

(* ---- premises ------------------------------------------------------------------------------------ *)
(* ModelScope: what the A-layer is defined on (drift is evaluated there); Premise: what the documented    *)
(* clauses quantify over.                                                                                 *)
WellFormed(w, o) == /\ Unique(o.index)
                 /\ Unique(o.cols)
                 /\ \A q \in Idx(ReqCols(o.cls)) : HasCol(o.cols, ReqCols(o.cls)[q])
                 /\ \A k \in Idx(o.rows) : /\ Len(o.rows[k]) = Len(o.cols)
                                            /\ Abs(Cell(o, k, "chromosome")) \in Idx(Worlds[w].names)
                 /\ Len(o.index) = Len(o.rows)
ModelScope(r) ==
    LET ev == r.ev IN
    /\ \A nm \in DOMAIN r.pre : WellFormed(r.w, r.pre[nm]) /\ N(r.pre[nm]) <= MaxShuffle
    /\ ev.recv # "" => ev.recv \in DOMAIN r.pre
    /\ ev.arg # "" => ev.arg \in DOMAIN r.pre
    /\ ev.res # "" => ev.res \notin DOMAIN r.pre
    (* add: "Any optional columns must match between both arrays." *)
    /\ ev.m = "add" => (IsInst(Arg(r).cls, Recv(r).cls) => SameColSet(Recv(r), Arg(r)))
    /\ ev.m = "concat" => LET names == ConcatOthers(ev.p[1], ev.recv, ev.arg) IN
                          \A q \in Idx(names) : SameColSet(r.pre[names[q]], r.pre[names[1]])
    /\ ev.m \in {"getitem_mask", "setitem_maskcell", "setitem_maskrows"} => ev.p[1] < Pow2(N(Recv(r)))
    /\ ev.m \in {"setitem_cell", "setitem_maskcell"} => HasCol(Recv(r).cols, ev.cs[1])
    (* .loc[label, c] = v with a label that is not there enlarges the frame (a row of NaN, integer columns    *)
    (* become float) or fails inside pandas, depending on the frame's block layout: not modelled              *)
    /\ ev.m = "setitem_cell" => \E k \in Idx(Recv(r).index) : Recv(r).index[k] = ev.p[1]
    /\ ev.m \in {"log2_get", "log2_set", "drop_low_coverage", "residuals", "chr_x_label", "chr_y_label", "chr_x_filter",
                 "expect_flat"} => Recv(r).cls = "CNA"
    /\ ev.m = "residuals" => \A k \in Idx(Recv(r).rows) : Cell(Recv(r), k, "log2") % 2 = 0
Premise(r) ==
    LET ev == r.ev IN
    /\ ModelScope(r)
    (* arrays holding a non-str chromosome cell (mixed-type input the constructor did not coerce) exercise the   *)
    (* A-layer only                                                                                              *)
    /\ \A nm \in DOMAIN r.pre : ~Mixed(r.pre[nm])
    /\ ev.m \in {"residuals", "expect_flat", "chr_x_filter"} => ~HasMeta(Recv(r), "chr_x") /\ ~HasMeta(Recv(r), "chr_y")

(* ---- model drift: the A-layer's prediction against the observation ------------------------------ *)
Predict(r) == Step(r.w, r.pre, r.al, r.ev)
DriftTags(r) ==
    LET s == TLCEval(Predict(r))  ev == r.ev IN     \* TLCEval: evaluate once (LET definitions are otherwise re-evaluated per use)
    (IF s.err # ev.err /\ ~(s.err = "ANY" /\ ev.err # "") /\ s.err # "MAYBE" THEN {"err"} ELSE {})
    \cup (IF ~s.dc /\ s.err = "" /\ ev.err = "" /\ s.ret # ev.ret THEN {"ret"} ELSE {})
    \cup (IF s.err = "" /\ ev.err = "" /\ s.alias # ev.alias THEN {"alias"} ELSE {})
    \cup (IF DOMAIN s.objs # DOMAIN r.post THEN {"names"} ELSE {})
    \cup UNION {IF s.dc THEN {} ELSE
                (IF s.objs[nm].cls # r.post[nm].cls THEN {nm \o ".cls"} ELSE {})
                \cup (IF s.objs[nm].cols # r.post[nm].cols THEN {nm \o ".cols"} ELSE {})
                \cup (IF s.objs[nm].rows # r.post[nm].rows THEN {nm \o ".rows"} ELSE {})
                \cup (IF s.objs[nm].index # r.post[nm].index THEN {nm \o ".index"} ELSE {})
                \cup (IF s.objs[nm].meta # r.post[nm].meta THEN {nm \o ".meta"} ELSE {})
                \cup (IF s.objs[nm].dt # r.post[nm].dt THEN {nm \o ".dt"} ELSE {})
                : nm \in DOMAIN s.objs \cap DOMAIN r.post}

(* ---- known findings ------------------------------------------------------------------------------ *)
KnownTriggers == {"GetitemIntegerSequence", "FilterFuncOnEmpty"}
TriggerHolds(t, r) ==
    CASE t = "GetitemIntegerSequence" -> r.ev.m = "getitem_ints"
      [] t = "FilterFuncOnEmpty" -> /\ r.ev.m = "filter" /\ r.ev.p[1] \in {3, 4} /\ N(Recv(r)) = 0
                                    /\ (r.ev.p[1] = 4 \/ Range(Recv(r).cols) # Range(ReqCols(Recv(r).cls)))
      [] OTHER -> FALSE
=============================================================================
