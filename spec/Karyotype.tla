--------------------------- MODULE Karyotype ---------------------------
(* Chromosome classes and copy-number conventions of CNVkit (cnvlib/cnary.py, cnvlib/call.py, *)
(* cnvlib/params.py).  Shared by the calling / sex / export specifications.                   *)
(*                                                                                            *)
(* A chromosome name is a pair (pfx, base): pfx \in {"chr", ""} is the naming style, base is  *)
(* "1".."22", "X", "Y", ...; the harness passes the string  pfx \o base  to the code.  TLC    *)
(* cannot look into strings, so everything the code derives from a name by startswith /       *)
(* lower() is derived here from the pair.                                                     *)
(*                                                                                            *)
(* P-style definitions (Class, RefCopies, ExpectCopies): what the docstrings and the property *)
(* texts say.  A-style definitions (the *Filter masks): cnary.py case for case.  Calling.tla  *)
(* builds its A-layer from the masks and its P-layer from the classes; the design check shows *)
(* that they agree.                                                                           *)
EXTENDS Naturals, Integers, Sequences

Prefixes == {"chr", ""}
Genomes  == {"none", "grch37", "grch38"}     \* "none" = diploid_parx_genome is None

ChromName(pfx, base) == pfx \o base

(* params.PSEUDO_AUTSOMAL_REGIONS, copied literally: [start, end] per genome build.            *)
ParTable ==
  [grch37 |-> [PAR1X |-> <<60000, 2699520>>,  PAR2X |-> <<154931043, 155260560>>,
               PAR1Y |-> <<10000, 2649520>>,  PAR2Y |-> <<59034049, 59363566>>],
   grch38 |-> [PAR1X |-> <<10000, 2781479>>,  PAR2X |-> <<155701382, 156030895>>,
               PAR1Y |-> <<10000, 2781479>>,  PAR2Y |-> <<56887902, 57217415>>]]
ParOf(genome) == IF genome = "grch37" THEN ParTable.grch37 ELSE ParTable.grch38   \* genome # "none"

(* ------------------------------------------------------------------ naming (cnary.py)      *)
(* chr_x_label: "chrX" if the first row's chromosome starts with "chr", else "X";            *)
(* chr_y_label: "chrY" if chr_x_label starts with "chr", else "Y".                            *)
XLabel(firstPfx) == IF firstPfx = "chr" THEN "chrX" ELSE "X"
YLabel(firstPfx) == IF firstPfx = "chr" THEN "chrY" ELSE "Y"

(* ------------------------------------------------------------------ A-style row masks      *)
(* a row is (pfx, base, s, e); firstPfx is the prefix of the first row of the table           *)
Within(s, e, iv) == s >= iv[1] /\ e <= iv[2]      \* (start >= par_start) & (end <= par_end)
ParXFilter(firstPfx, pfx, base, s, e, genome) ==          \* cnary.parx_filter
    /\ ChromName(pfx, base) = XLabel(firstPfx)
    /\ Within(s, e, ParOf(genome).PAR1X) \/ Within(s, e, ParOf(genome).PAR2X)
ParYFilter(firstPfx, pfx, base, s, e, genome) ==          \* cnary.pary_filter
    /\ ChromName(pfx, base) = YLabel(firstPfx)
    /\ Within(s, e, ParOf(genome).PAR1Y) \/ Within(s, e, ParOf(genome).PAR2Y)
ChrXFilter(firstPfx, pfx, base, s, e, genome) ==          \* cnary.chr_x_filter
    /\ ChromName(pfx, base) = XLabel(firstPfx)
    /\ genome # "none" => ~ParXFilter(firstPfx, pfx, base, s, e, genome)
ChrYFilter(firstPfx, pfx, base, s, e, genome) ==          \* cnary.chr_y_filter
    /\ ChromName(pfx, base) = YLabel(firstPfx)
    /\ genome # "none" => ~ParYFilter(firstPfx, pfx, base, s, e, genome)

(* call._reference_copies_pure: by (lower-cased) name only -- no PAR handling, no sample sex. *)
(* Only the two naming styles of the property are modelled (lower() of "chrX"/"X").           *)
IsXName(pfx, base) == pfx \in Prefixes /\ base = "X"
IsYName(pfx, base) == pfx \in Prefixes /\ base = "Y"
RefCopiesPure(pfx, base, ploidy, hapx) ==
    IF IsYName(pfx, base) \/ (hapx /\ IsXName(pfx, base)) THEN ploidy \div 2 ELSE ploidy

(* ------------------------------------------------------------------ P-style classes        *)
(* class of a segment: autosome / X / Y / PAR on X / PAR on Y.  A segment is "in" a PAR when  *)
(* it lies wholly inside PAR1 or PAR2 of the chosen build; with genome "none" there is no PAR.*)
Kind(base) == IF base = "X" THEN "X" ELSE IF base = "Y" THEN "Y" ELSE "auto"
Class(base, s, e, genome) ==
    CASE Kind(base) = "X" ->
           IF genome # "none" /\ (Within(s, e, ParOf(genome).PAR1X) \/ Within(s, e, ParOf(genome).PAR2X))
           THEN "PARX" ELSE "X"
      [] Kind(base) = "Y" ->
           IF genome # "none" /\ (Within(s, e, ParOf(genome).PAR1Y) \/ Within(s, e, ParOf(genome).PAR2Y))
           THEN "PARY" ELSE "Y"
      [] OTHER -> "auto"
Classes == {"auto", "X", "Y", "PARX", "PARY"}

(* copies in the reference: the ploidy on autosomes (and on a diploid PAR of X), ploidy/2     *)
(* (integer division) on X when the reference is haploid-X (male), always ploidy/2 on Y, and  *)
(* 0 on the PAR of Y (never covered: everything maps to X).                                   *)
RefCopies(class, ploidy, hapx) ==
    CASE class = "auto" -> ploidy
      [] class = "PARX" -> ploidy
      [] class = "X"    -> IF hapx THEN ploidy \div 2 ELSE ploidy
      [] class = "Y"    -> ploidy \div 2
      [] class = "PARY" -> 0
(* copies expected in the patient's germline: ploidy on autosomes / diploid PAR; X: ploidy in *)
(* a female, ploidy/2 in a male; Y: 0 in a female, ploidy/2 in a male; PAR of Y: 0.            *)
ExpectCopies(class, ploidy, female) ==
    CASE class = "auto" -> ploidy
      [] class = "PARX" -> ploidy
      [] class = "X"    -> IF female THEN ploidy ELSE ploidy \div 2
      [] class = "Y"    -> IF female THEN 0 ELSE ploidy \div 2
      [] class = "PARY" -> 0
(* is the rescaled log2 of this class shifted by +1 (ratio doubled) in call.log2_ratios?       *)
DoubledClass(class, hapx) == class = "Y" \/ (class = "X" /\ hapx)
=============================================================================
