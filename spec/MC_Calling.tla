--------------------------- MODULE MC_Calling ---------------------------
(* Design check + enumerator for C01 / C02: every input of the small scope, one step computing *)
(* the A-layer result (call.py as modelled); invariant DesignOK = the A-layer satisfies every  *)
(* P-layer clause wherever the premise holds.  The dump of the run is replayed into the real   *)
(* cnvlib.call.do_call (direction 1).  One state = one segment row under one configuration;    *)
(* the harness batches the rows of a configuration into one table.                             *)
EXTENDS Calling
CONSTANTS Ops,        \* subset of {"clonal_mix", "clonal_pure", "clonal_any", "threshold"}
          NMax,       \* tumour copy numbers 0..NMax (clonal_mix)
          PurityIdx,  \* indices into PurityGrid
          Ploidies, HapX, Females, Prefs, Genos,
          LocusIdx,   \* indices into LociSeq
          MaxULen,    \* threshold vectors: increasing sub-sequences of USeq up to this length (0: none)
          WithDefaultU, \* also the default vector (-1.1, -0.25, 0.2, 0.7)
          BafIdx,     \* indices into BafSeq (1 = missing)
          VMode       \* how BAF reaches do_call in the threshold scope: "none" | "vcf" | "column"

PurityGrid == << <<1,10>>, <<2,10>>, <<3,10>>, <<4,10>>, <<5,10>>, <<6,10>>, <<7,10>>, <<8,10>>, <<9,10>>,
                 <<10,10>>, <<1,3>>, <<37,100>>, <<99,100>> >>
(* Cross-table loci (17..28), computed from the tables copied in Karyotype.tla: the X and the Y *)
(* table of a build differ (grch37 PAR1: X 60000-2699520, Y 10000-2649520; PAR2 of either build  *)
(* lies at different coordinates on X and Y), so a row mask that looks up the wrong chromosome's   *)
(* key only shows on a bin placed by the OTHER chromosome's coordinates or strictly between the   *)
(* two tables' boundaries.                                                                        *)
Loc(b, s, e) == [base |-> b, s |-> s, e |-> e]
Lo2(a, b) == IF a < b THEN a ELSE b
Hi2(a, b) == IF a < b THEN b ELSE a
CrossLoci ==
  LET g37 == ParTable.grch37  g38 == ParTable.grch38
      sLo == Lo2(g37.PAR1X[1], g37.PAR1Y[1])  sHi == Hi2(g37.PAR1X[1], g37.PAR1Y[1])   \* 10000, 60000
      eLo == Lo2(g37.PAR1X[2], g37.PAR1Y[2])  eHi == Hi2(g37.PAR1X[2], g37.PAR1Y[2])   \* 2649520, 2699520
  IN <<
  Loc("Y", eLo + 10480, eLo + 20480),           \* 17 strictly between the PAR1 ends of grch37: plain Y there (past PAR1Y)
  Loc("Y", g37.PAR1X[1], g37.PAR1X[2]),          \* 18 Y bin at the PAR1X coordinates of grch37: plain Y there
  Loc("Y", eLo + 480, eHi + 1),                  \* 19 Y bin ending one base past the PAR1X end of grch37
  Loc("Y", sLo + 10000, sHi - 10000),            \* 20 strictly between the PAR1 starts of grch37: PAR-Y (inside PAR1Y)
  Loc("X", sLo + 10000, sHi - 10000),            \* 21 the same on X: plain X under grch37 (before PAR1X)
  Loc("X", eLo + 10480, eLo + 20480),            \* 22 strictly between the PAR1 ends on X: PAR-X (inside PAR1X)
  Loc("X", g37.PAR1Y[1], g37.PAR1Y[2]),          \* 23 X bin at the PAR1Y coordinates of grch37: plain X there
  Loc("Y", g37.PAR2X[1], g37.PAR2X[2]),          \* 24 Y bin at the PAR2X coordinates of grch37: plain Y
  Loc("X", g37.PAR2Y[1], g37.PAR2Y[2]),          \* 25 X bin at the PAR2Y coordinates of grch37: plain X
  Loc("Y", g38.PAR2X[1], g38.PAR2X[2]),          \* 26 Y bin at the PAR2X coordinates of grch38: plain Y
  Loc("X", g38.PAR2Y[1], g38.PAR2Y[2]),          \* 27 X bin at the PAR2Y coordinates of grch38: plain X
  Loc("X", g37.PAR1X[1], g37.PAR1Y[2] + 1) >>    \* 28 X bin from the PAR1X start to one base past the PAR1Y end: PAR-X
NPlainLoci == 16    \* loci 17.. only differ from 2/3 when a PAR genome is given
(* real coordinates inside / outside / on the edge of the PAR tables of params.py *)
LociSeq == <<
  [base |-> "1", s |-> 1000000,   e |-> 2000000],     \*  1 autosome
  [base |-> "X", s |-> 50000000,  e |-> 60000000],    \*  2 X, far from any PAR
  [base |-> "Y", s |-> 20000000,  e |-> 21000000],    \*  3 Y, far from any PAR
  [base |-> "X", s |-> 60000,     e |-> 2699520],     \*  4 grch37 PAR1X exactly (inside grch38 PAR1X too)
  [base |-> "X", s |-> 154931043, e |-> 155260560],   \*  5 grch37 PAR2X exactly (plain X under grch38)
  [base |-> "Y", s |-> 10000,     e |-> 2649520],     \*  6 grch37 PAR1Y exactly (inside grch38 PAR1Y too)
  [base |-> "Y", s |-> 59034049,  e |-> 59363566],    \*  7 grch37 PAR2Y exactly (plain Y under grch38)
  [base |-> "X", s |-> 10000,     e |-> 2781479],     \*  8 grch38 PAR1X exactly (starts before grch37's: X there)
  [base |-> "X", s |-> 155701382, e |-> 156030895],   \*  9 grch38 PAR2X exactly
  [base |-> "Y", s |-> 10000,     e |-> 2781479],     \* 10 grch38 PAR1Y exactly (ends after grch37's: Y there)
  [base |-> "Y", s |-> 56887902,  e |-> 57217415],    \* 11 grch38 PAR2Y exactly
  [base |-> "X", s |-> 59999,     e |-> 2699520],     \* 12 one base before grch37 PAR1X
  [base |-> "X", s |-> 154931043, e |-> 155260561],   \* 13 one base past grch37 PAR2X
  [base |-> "Y", s |-> 10000,     e |-> 2649521],     \* 14 one base past grch37 PAR1Y
  [base |-> "Y", s |-> 56887901,  e |-> 57217415],    \* 15 one base before grch38 PAR2Y
  [base |-> "X", s |-> 100000,    e |-> 200000] >>    \* 16 interior of PAR1X in both builds
   \o CrossLoci
USeq == << <<1,4>>, <<1,2>>, <<7,10>>, <<1,1>>, <<5,4>>, <<3,2>>, <<2,1>> >>
BafSeq == << <<0,0>>, <<0,8>>, <<1,8>>, <<2,8>>, <<3,8>>, <<4,8>>, <<5,8>>, <<6,8>>, <<7,8>>, <<8,8>> >>

Pt(n, d) == [n |-> n, d |-> d, t |-> 0]
Tag(i)   == [n |-> 0, d |-> 1, t |-> i]
RECURSIVE SortedIdx(_)
SortedIdx(S) == IF S = {} THEN <<>> ELSE LET m == CHOOSE x \in S : \A y \in S : x <= y IN <<m>> \o SortedIdx(S \ {m})
UVectors == {[k \in 1..Cardinality(S) |-> Pt(USeq[SortedIdx(S)[k]][1], USeq[SortedIdx(S)[k]][2])] :
                S \in {T \in SUBSET (1..Len(USeq)) : Cardinality(T) \in 1..MaxULen}}
             \cup (IF WithDefaultU THEN {DefaultU} ELSE {})

E6 == 1000000
(* log2 values a threshold table is probed with: every threshold, 1e-6 (relative) either side  *)
(* of it, every point where rc*q crosses an integer 1..8 and 1e-6 either side, log2 0, extremes *)
NearPts(U) == UNION {
    IF U[i].t = 0 THEN {U[i], Pt(U[i].n * (E6 - 1), U[i].d * E6), Pt(U[i].n * (E6 + 1), U[i].d * E6)}
    ELSE LET br == DefaultBracket[U[i].t] IN
         {U[i], Pt(br.lo[1], E9), Pt(br.hi[1], E9),
          Pt(br.lo[1] - br.lo[1] \div E6, E9), Pt(br.hi[1] + br.hi[1] \div E6, E9)} : i \in 1..Len(U)}
CrossPts(rc) == IF rc = 0 THEN {}
                ELSE UNION {{Pt(m, rc), Pt(m * (E6 - 1), rc * E6), Pt(m * (E6 + 1), rc * E6)} : m \in 1..8}
QPoints(U, rc) == NearPts(U) \cup CrossPts(rc) \cup {Pt(1, 1), Pt(1, 1024), Pt(1024, 1)}
(* no-purity grid: eighths up to 5, a few non-dyadic ratios, and 1e-6 either side of every point *)
(* where rc * q passes a half-integer (the rounding boundary), rc = 1..6                        *)
PureGrid == {Pt(j, 8) : j \in 1..40} \cup {Pt(1, 3), Pt(7, 10), Pt(1, 1024), Pt(4001, 1000)}
            \cup UNION {{Pt((2*m + 1) * (E6 - 1), 2 * rc * E6), Pt((2*m + 1) * (E6 + 1), 2 * rc * E6)} :
                          m \in 0..4, rc \in 1..6}
AnyGrid  == {Pt(1, 1024), Pt(1, 32), Pt(1, 4), Pt(1, 2), Pt(1, 1), Pt(3, 2), Pt(4, 1), Pt(1024, 1)}

VARIABLES op, c, U, row, ph, out
vars == <<op, c, U, row, ph, out>>

(* States carry values, not indices, so that the replay needs no copy of the tables above; flat *)
(* tuples keep the dump small:                                                                  *)
(*   c   = <<ploidy, pn, pd, hapx, female, pfx, genome>>                                        *)
(*   row = <<base, s, e, qn, qd, qt, nan, n, bafn, bafd>>                                       *)
(*   U   = << <<n, d, t>>, ... >>                                                                *)
(*   out = <<cn, o6, has12, c1, c2, m1, m2>>                                                     *)
Pn(p) == IF p = 0 THEN 0 ELSE PurityGrid[p][1]
Pd(p) == IF p = 0 THEN 1 ELSE PurityGrid[p][2]
Cfg(pl, p, hx, fe, pf, g) == <<pl, Pn(p), Pd(p), hx, fe, pf, g>>
Row(loc, q, nan, n, baf) == <<LociSeq[loc].base, LociSeq[loc].s, LociSeq[loc].e, q.n, q.d, q.t, nan, n,
                              BafSeq[baf][1], BafSeq[baf][2]>>
UTup(V) == [i \in 1..Len(V) |-> <<V[i].n, V[i].d, V[i].t>>]

(* log2 of the mixing model for n copies (statement of C01); a placeholder (ratio 1) where the *)
(* model is undefined (r = 0) or gives ratio 0 -- those states fail the premise                *)
MixPoint(pl, p, hx, fe, g0, loc, n) ==
    LET L   == LociSeq[loc]
        g   == IF Pn(p) < Pd(p) THEN g0 ELSE "none"
        cls == Class(L.base, L.s, L.e, g)
        rc  == RefCopies(cls, pl, hx)
        x   == ExpectCopies(cls, pl, fe)
        num == MixNum(n, Pn(p), Pd(p), x)
    IN IF rc = 0 \/ num = 0 THEN Pt(1, 1) ELSE Pt(num, MixDen(Pd(p), rc))

NoOut == <<0, -1, FALSE, 0, 0, FALSE, FALSE>>

InitMix ==
    /\ op = "clonal_mix" /\ U = <<>>
    /\ \E pl \in Ploidies, p \in PurityIdx, hx \in HapX, fe \in Females, pf \in Prefs, g \in Genos,
          loc \in LocusIdx, n \in 0..NMax :
          /\ (g = "none" => loc <= NPlainLoci)
          /\ c = Cfg(pl, p, hx, fe, pf, g)
          /\ row = Row(loc, MixPoint(pl, p, hx, fe, g, loc, n), FALSE, n, 1)
InitPure ==
    /\ op = "clonal_pure" /\ U = <<>>
    /\ c \in {Cfg(pl, 0, hx, fe, pf, "none") : pl \in Ploidies, hx \in HapX, fe \in Females, pf \in Prefs}
    /\ \E loc \in LocusIdx \cap 1..3, q \in PureGrid : row = Row(loc, q, FALSE, -1, 1)
InitAny ==
    /\ op = "clonal_any" /\ U = <<>>
    /\ c \in {Cfg(pl, p, hx, fe, pf, g) : pl \in Ploidies, p \in PurityIdx \cup {0}, hx \in HapX, fe \in Females,
                                          pf \in Prefs, g \in Genos}
    /\ \E loc \in LocusIdx, q \in AnyGrid : row = Row(loc, q, FALSE, -1, 1)
InitThr ==
    /\ op = "threshold"
    /\ \E pl \in Ploidies, hx \in HapX, pf \in Prefs, V \in UVectors, loc \in LocusIdx \cap 1..3,
          b \in (IF VMode = "none" THEN {1} ELSE BafIdx) :
          LET L == LociSeq[loc]
              rc == RefCopies(Class(L.base, L.s, L.e, "none"), pl, hx)
          IN /\ c = Cfg(pl, 0, hx, FALSE, pf, "none")
             /\ U = UTup(V)
             /\ \/ \E q \in QPoints(V, rc) : row = Row(loc, q, FALSE, -1, b)
                \/ row = Row(loc, Pt(1, 1), TRUE, -1, b)
Init == /\ ph = "call" /\ out = NoOut
        /\ \/ ("clonal_mix" \in Ops /\ InitMix)
           \/ ("clonal_pure" \in Ops /\ InitPure)
           \/ ("clonal_any" \in Ops /\ InitAny)
           \/ ("threshold" \in Ops /\ InitThr)

(* the state as a one-row trace record *)
RecOf(o) ==
    [op |-> op, ploidy |-> c[1], pn |-> c[2], pd |-> c[3], hapx |-> c[4], female |-> c[5],
     genome |-> c[7], fpfx |-> c[6], vmode |-> IF op = "threshold" THEN VMode ELSE "none",
     U |-> U, nin |-> 1, nout |-> 1, err |-> "",
     rows |-> << <<c[6], row[1], row[2], row[3], row[4], row[5], row[6], row[7], row[8], row[9], row[10]>> >>,
     out |-> << <<ZInt(o[1]).neg, ZInt(o[1]).m, TRUE, o[2], o[3], o[4], o[5], o[6], o[7],
                  IF o[3] /\ row[10] > 0 THEN (row[9] * E6) \div row[10] ELSE -1>> >>]
Rec == Decode(RecOf(out))

(* A-layer outputs for this state (a set: float ties on inexact values admit two results) *)
AOuts ==
    LET r0 == Decode(RecOf(NoOut))
        has == AHas12(r0)
    IN UNION {
         LET miss == has /\ BafMissing(RowAt(r0, 1)) /\ ZCmp(cn, ZZero) > 0
             o6z  == RatRoundHE(RatMulInt(AOutRatio(r0, 1), E6))
             o6   == IF op \in ClonalOps /\ ZFits(o6z) THEN ZToInt(o6z) ELSE -1
         IN {<<ZToInt(cn), o6, has,
               IF has /\ ~miss THEN ZToInt(c1) ELSE 0,
               IF has /\ ~miss THEN ZToInt(cn) - ZToInt(c1) ELSE 0,
               miss, miss>> :
                c1 \in IF has /\ ~miss /\ ~cn.neg THEN ACn1Set(r0, 1, cn) ELSE {ZZero}}
         : cn \in ACnSet(r0, 1)}
Call == /\ ph = "call" /\ ph' = "ret"
        /\ out' \in AOuts
        /\ UNCHANGED <<op, c, U, row>>
Next == Call
Spec == Init /\ [][Next]_vars

(* the algorithm as modelled satisfies every clause of the property wherever the premise holds *)
DesignOK == ph = "ret" => (Premise(Rec) => \A cl \in Clauses(op) : Holds(cl, Rec))
(* single clause, for the expected design-level counterexample of finding F-C01 *)
DesignNonNeg == (ph = "ret" /\ op = "clonal_any" /\ Premise(Rec)) => Holds("any_cn_nonneg_int", Rec)

(* C02 "hence": with the default thresholds cn never decreases along a grid of 2000 ratios     *)
(* (q = j/250, j = 1..2000, i.e. log2 from -7.97 to 3) and is 2 at log2 0 on a diploid autosome. *)
(* TLC shows that this follows from the step function in every configuration except reference  *)
(* copies = ploidy = 1 (finding F-C02, StepDropsAtTop), where it shows that it does NOT.         *)
GridCn(j, rc, ploidy) == CHOOSE z \in ThresholdCallSet(Pt(j, 250), FALSE, DefaultU, rc, ploidy) : TRUE
DesignMonotone ==
    (ph = "ret" /\ op = "threshold" /\ UPts(U) = DefaultU /\ row[7]) =>
        LET rc == RefCopies(Class(row[1], row[2], row[3], "none"), c[1], c[4])
            g == [j \in 1..2000 |-> GridCn(j, rc, c[1])]
        IN /\ \A j \in 1..2000 : \A i \in 1..4 : PtCmp(Pt(j, 250), DefaultU[i]) # 2
           /\ (\A j \in 1..1999 : ZCmp(g[j], g[j+1]) <= 0) <=> ~StepDropsAtTop(rc, c[1])
           /\ (c[1] = 2 /\ Kind(row[1]) = "auto") => g[250] = ZInt(2)
=============================================================================
