--------------------------- MODULE Trace_Formats ---------------------------
(* Trace validation for C08: one recorded case of the real code per record (a written file, a table *)
(* read from a fixture, an auto-detected read, a write-read-write round trip, an export seg /       *)
(* import-seg round trip); verdicts are carried as state (total verdicts) and read from the dump.   *)
EXTENDS Formats, Json, IOUtils
Trace == JsonDeserialize(IOEnv.TRACE_FILE)
VARIABLES i, ph, failed, scope, triggers, drift, checked
vars == <<i, ph, failed, scope, triggers, drift, checked>>
Init == /\ i \in 1..Len(Trace) /\ ph = "call"
        /\ failed = {} /\ scope = TRUE /\ triggers = {} /\ drift = FALSE /\ checked = {}
Next == /\ ph = "call" /\ ph' = "ret" /\ UNCHANGED i
        /\ LET r == Trace[i] IN
           /\ scope' = Premise(r)
           /\ checked' = IF scope' THEN Clauses(r.op) ELSE {}
           /\ failed' = IF scope' THEN LET v == Verdict(r) IN {c \in checked' : ~v[c]} ELSE {}
           /\ triggers' = {t \in KnownTriggers : TriggerHolds(t, r)}
           /\ drift' = (scope' /\ failed' = {} /\ Drift(r))
Spec == Init /\ [][Next]_vars
NoFailure == failed = {}
=============================================================================
