--------------------------- MODULE MC_Fix ---------------------------
(* Design check + enumerator for C04 (direction 1): a reference of NB <= 5 bins in <= 2 classes; every subset  *)
(* of bad bins (the filter each bin sits on rotates with KShifts: a bad bin is one grid step beyond its         *)
(* threshold, a good bin exactly on it -- or, when the number of bad bins is odd, one step inside), every       *)
(* subset of {gc, edge, rmask}, class patterns,                                                                 *)
(* reference column sets, and the scenarios: sample over the same bins / a subset / no antitargets / a bin      *)
(* missing from the reference / duplicated coordinates in target, antitarget, reference / rows in other orders. *)
(* One step computes the A-layer result; DesignOK says the A-layer satisfies every clause of the P-layer.       *)
(* The dump of this run is replayed into the real cnvlib.fix.do_fix.                                            *)
EXTENDS Fix
CONSTANTS NB, KShifts, Pats, Scens, ColSets

Kinds == <<"lo", "hi", "spread", "depth", "gclo", "gchi">>
KindOf(b, ks) == Kinds[((b + ks) % 6) + 1]
ChromOf(b) == IF b <= 2 THEN 1 ELSE IF b <= 4 THEN 2 ELSE 4         \* chr1, chr2, chrX (nauto = 3)
StartOf(b) == 300 * b
EndOf(b) == 300 * b + 100 + 37 * b                                   \* distinct sizes, gaps < 250
SampleL(b) == 64 * <<3, -5, 8, -2, 11>>[b]
PatOf(p, b) == CASE p = 1 -> "T"
                 [] p = 2 -> IF b % 2 = 1 THEN "T" ELSE "A"
                 [] p = 3 -> IF b \in {1, 2, 5} THEN "T" ELSE "A"
                 [] OTHER -> IF b \in {2, 3} THEN "T" ELSE "A"

RefRow(b, isbad, ks, odd) ==      \* odd: a good bin sits exactly on its threshold (else one grid step inside)
    LET k == KindOf(b, ks)
        l == CASE k = "lo" -> IF isbad THEN MinRefLog2 - 64 ELSE IF odd THEN MinRefLog2 ELSE MinRefLog2 + 64
               [] k = "hi" -> IF isbad THEN 64 - MinRefLog2 ELSE IF odd THEN 0 - MinRefLog2 ELSE 0 - MinRefLog2 - 64
               [] OTHER -> 64 * (2 * b - 5)
        sp == CASE k = "spread" -> IF isbad THEN SU + 1 ELSE IF odd THEN SU ELSE SU - 1
                [] OTHER -> 200000 + 8000 * b
        dp == CASE k = "depth" -> IF isbad THEN 0 ELSE 1
                [] OTHER -> 80
        g == CASE k = "gclo" -> IF isbad THEN GcLo - 1 ELSE IF odd THEN GcLo ELSE GcLo + 1
               [] k = "gchi" -> IF isbad THEN GcHi + 1 ELSE IF odd THEN GcHi ELSE GcHi - 1
               [] OTHER -> 4000 + 500 * ((b * 3) % 5)
        rm == 1000 + 700 * ((b * 2) % 5)
    IN <<ChromOf(b), StartOf(b), EndOf(b), l, sp, dp, g, rm>>
SampleRow(b, ks) == IF b = 2 /\ ks % 3 = 1 THEN <<ChromOf(b), StartOf(b), EndOf(b), -20 * LU, 1>>   \* no coverage
                    ELSE <<ChromOf(b), StartOf(b), EndOf(b), SampleL(b), 0>>
Extra == <<2, 5000, 5100, 64, 0>>                                   \* a sample bin the reference does not have

Rev(s) == [k \in 1..Len(s) |-> s[Len(s) + 1 - k]]
(* scenarios tie2 / tie3: bins that share a START but have different ends (overlapping baits with distinct        *)
(* coordinates: not refused, matched by coordinate, ordered by end): bins 1,2 at chr1:300 and bins 3,4 at chr2:900  *)
(* (tie2), or bins 1,2,3 all at chr1:300 (tie3); every table is then given in reverse order                         *)
Retie(x, sc) == LET b == x[2] \div 300 IN
    IF sc = "tie2" /\ b \in {2, 4} THEN [x EXCEPT ![2] = 300 * (b - 1)]
    ELSE IF sc = "tie3" /\ b \in {2, 3} THEN [x EXCEPT ![1] = 1, ![2] = 300]
    ELSE x
RetieAll(t, sc) == [k \in 1..Len(t) |-> Retie(t[k], sc)]
Input(bad, corr, ks, p, sc, cols) ==
    LET ref0 == [b \in 1..NB |-> RefRow(b, b \in bad, ks, Cardinality(bad) % 2 = 0)]
        tb == SelectSeq([b \in 1..NB |-> b], LAMBDA b : PatOf(p, b) = "T")
        ab == SelectSeq([b \in 1..NB |-> b], LAMBDA b : PatOf(p, b) = "A")
        tgt0 == [k \in 1..Len(tb) |-> SampleRow(tb[k], ks)]
        ant0 == [k \in 1..Len(ab) |-> SampleRow(ab[k], ks)]
        tgt == CASE sc = "subset" -> IF Len(tgt0) >= 2 THEN SubSeq(tgt0, 1, Len(tgt0) - 1) ELSE tgt0
                 [] sc = "missing" -> tgt0 \o <<Extra>>
                 [] sc = "dupT" -> tgt0 \o <<tgt0[1]>>
                 [] sc = "perm" -> Rev(tgt0)
                 [] sc \in {"tie2", "tie3"} -> Rev(RetieAll(tgt0, sc))
                 [] OTHER -> tgt0
        ant == CASE sc = "subset" -> IF ant0 # <<>> THEN Tail(ant0) ELSE ant0
                 [] sc = "noanti" -> <<>>
                 [] sc = "missingA" -> ant0 \o <<Extra>>
                 [] sc = "dupA" -> IF ant0 # <<>> THEN ant0 \o <<ant0[1]>> ELSE ant0
                 [] sc = "perm" -> Rev(ant0)
                 [] sc \in {"tie2", "tie3"} -> Rev(RetieAll(ant0, sc))
                 [] OTHER -> ant0
        ref == CASE sc = "dupRef" -> ref0 \o <<ref0[NB]>>
                 [] sc \in {"perm", "permR"} -> Rev(ref0)
                 [] sc \in {"tie2", "tie3"} -> Rev(RetieAll(ref0, sc))
                 [] OTHER -> ref0
    IN [op |-> "fix", nauto |-> 3,
        gc |-> "gc" \in corr, edge |-> "edge" \in corr, rmask |-> "rmask" \in corr,
        hasgc |-> cols # "nogc", hasrmask |-> cols # "normask", hasdepth |-> cols # "nodepth",
        ref |-> Force(ref), tgt |-> Force(tgt), ant |-> Force(ant)]

VARIABLES inp, ph, aout, aerr
vars == <<inp, ph, aout, aerr>>
NoVar == [kind |-> "none", k |-> 0, k16 |-> 0, tperm |-> <<>>, aperm |-> <<>>, err |-> "", out |-> <<>>]
(* the A-layer result as an observed record: values on the grid, weight 1 *)
OutRows(a) == [j \in 1..Len(a) |-> <<a[j][1], a[j][2], a[j][3], a[j][4], 1, 0, 0, a[j][5], a[j][6], 0, 1000000, 0>>]
Rec == inp @@ [err |-> IF aerr = "" THEN "" ELSE "refused", errkind |-> aerr, out |-> OutRows(aout), var |-> NoVar]

Init == /\ \E bad \in SUBSET (1..NB), corr \in SUBSET {"gc", "edge", "rmask"}, ks \in KShifts, p \in Pats,
              sc \in Scens, cols \in ColSets : inp = Input(bad, corr, ks, p, sc, cols)
        /\ ph = "call" /\ aout = <<>> /\ aerr = ""
Call == /\ ph = "call" /\ ph' = "ret"
        /\ aerr' = AErr(inp)
        /\ aout' = IF aerr' = "" THEN Force(AFix(inp)) ELSE <<>>
        /\ UNCHANGED inp
Next == Call
Spec == Init /\ [][Next]_vars

(* design-level statement: the algorithm as modelled satisfies every clause of the property *)
DesignOK == ph = "ret" => (Premise(Rec) => \A c \in Clauses("fix") : Holds(c, Rec))
(* and the modelled refusal is exactly the stated one *)
DesignRefusal == ph = "ret" => ((aerr # "") = MustRefuse(inp))
=============================================================================
