--------------------------- MODULE PipelineOps ---------------------------
(* Variable-free part of the Pipeline model, shared by the design model (Pipeline.tla) and the   *)
(* trace validator (Trace_Pipeline.tla): the menu of calls and the file-system steps.            *)
EXTENDS Naturals, Integers, Sequences, FiniteSets, SequencesExt, FiniteSetsExt, Functions, TLC, Json, IOUtils

(* The menu of concrete calls is produced by the harness from its table of real callables:      *)
(* a sequence of records [op, par, args (sequence of object names), stochastic, parallel].      *)
Menu == JsonDeserialize(IOEnv.MENU_FILE)
Calls == 1..Len(Menu)
ObjNames == UNION {Range(Menu[c].args) : c \in Calls}

CONSTANTS MaxWrites,   \* bound on writes to the one output path
          PreExisting  \* set of suffix numbers that exist before the session (0 = the path itself)

(* the output directory: suffix 0 is the path itself, k is "path.k"; value = content id, 0 = absent *)
Sfx == 0..(MaxWrites + Cardinality(PreExisting) + 1)
Absent == 0

(* core.ensure_path: if the path exists, rename it to the first free numbered suffix *)
EnsurePathStep(f) == IF f[0] = Absent THEN f
                     ELSE LET k == CHOOSE k \in Sfx \ {0} : f[k] = Absent /\ \A j \in 1..k-1 : f[j] # Absent
                          IN [f EXCEPT ![k] = f[0], ![0] = Absent]
(* the writer then opens the path for writing *)
WriteStep(f, content) == [f EXCEPT ![0] = content]
=============================================================================
