--------------------------- MODULE Segfilters ---------------------------
(* Segment filters of `cnvkit.py call --filter` (cnvlib/segfilters.py) and their ordering in *)
(* cnvlib/call.py::do_call  --  property C14.                                               *)
(*                                                                                          *)
(* P-layer = the property as stated: every filter replaces each maximal run of consecutive  *)
(*           same-chromosome segments sharing the filter's level by one segment (first start *)
(*           to last end, probes/weight summed, weight-averaged log2); nothing merges across *)
(*           a chromosome or a level change; neighbouring outputs differ in level; totals    *)
(*           and per-chromosome spans are conserved; ampdel keeps only cn = 0 / cn >= 5 runs.*)
(* A-layer = the code, case for case: enumerate_changes (diff/fillna/abs/cumsum/astype(int)),*)
(*           squash_by_groups (group key = changes + chromosome ordinal, plus _g1/_g2 when   *)
(*           cn1 is present, groupby(sort=False)), squash_region (np.average / np.mean,      *)
(*           weighted_median / np.median for cn, cn1; cn2 = cn - cn1), the four level        *)
(*           functions, ampdel's final selection, and do_call's ordering (ci, sem first).    *)
(* Verdicts come from the P-layer only; A-layer disagreement is MODEL-DRIFT.                 *)
(*                                                                                          *)
(* Numbers (DESIGN section 4).  All table values are scaled integers:                        *)
(*   log2 * G = lh + ll / T   (G = 1600: a grid containing the dyadic 1/64 and the decimal   *)
(*                             0.49, 0.98, 1.96; T = 10^5 sub-units; 0 <= ll < T, floor      *)
(*                             normalised, so one sub-unit is 6.25e-9 in log2)               *)
(*   weight = w / 16,  cn = cn / 8 (cn1, cn2 likewise; m1/m2 = value present, i.e. not NaN), *)
(*   ci_lo = lo / G, ci_hi = hi / G,  sem = se / 64.                                         *)
(* 1.96 = 49/25 and G = 25 * 64, hence  log2 > 1.96 * sem  <=>  lh > 49 * se  (for ll = 0).  *)
(* `bad` is a bit mask set by the encoder when an observed value is not representable:       *)
(*   1 log2 not finite / out of range, 2 weight off the 1/16 grid, 4 cn off the 1/8 grid,    *)
(*   8 probes not an integer, 16 cn1/cn2 off grid.  The clauses, not the encoder, decide     *)
(*   what that means.                                                                       *)
EXTENDS Naturals, Integers, Sequences, FiniteSets, FiniteSetsExt, TLC

G   == 1600
T   == 100000
CS  == 8
Z49 == 49
MaxW == 2000      \* bound on the summed weight units of one chromosome (keeps products < 2^31)
MaxL == 16 * G    \* |log2| <= 16
Tol == 2          \* log2 tolerance in sub-units (encoding 1/2 + 1/2, float error << 1)

Idx(t) == 1..Len(t)
Abs(x) == IF x < 0 THEN -x ELSE x
Bit(b, k) == (b \div k) % 2 = 1
RECURSIVE SumFn(_, _, _)
SumFn(f, i, j) == IF i > j THEN 0 ELSE f[i] + SumFn(f, i + 1, j)
SumAll(f) == SumFn(f, 1, Len(f))

FilterNames == {"cn", "ci", "sem", "ampdel"}
Methods == {"threshold", "clonal", "none"}

(* ================================================================= levels ============== *)
(* "CI above / below / straddling zero" *)
LvCi(x)  == IF x.hi < 0 THEN -1 ELSE IF x.lo > 0 THEN 1 ELSE 0
(* "log2 +- 1.96*sem likewise" *)
LvSem(x) == IF x.lh + Z49 * x.se < 0 THEN -1 ELSE IF x.lh > Z49 * x.se THEN 1 ELSE 0
(* "deleted (cn = 0) / amplified (cn >= 5) / neither" *)
LvAmp(x) == IF x.cn = 0 THEN -1 ELSE IF x.cn >= 5 * CS THEN 1 ELSE 0
Lv(f, x) == CASE f = "ci" -> LvCi(x) [] f = "sem" -> LvSem(x) [] f = "ampdel" -> LvAmp(x) [] OTHER -> x.cn

(* "equal cn (and allele-specific cn)".  Two things the statement leaves open are left open *)
(* here, as *readings*; a verdict needs every admissible reading to agree:                   *)
(*  - a missing (NaN) cn1/cn2 is a level of its own ("strict") or "no allelic information",  *)
(*    compatible with any value ("lenient");                                                 *)
(*  - for ci / sem / ampdel on a table that carries cn1/cn2 the level is the filter's level  *)
(*    alone ("plain"), or additionally keeps allele-specific states apart (the code's        *)
(*    "Keep allele-specific CNAs separate" applies to every filter).                         *)
Readings(f, cols) == IF ~cols.al THEN {"plain"}
                     ELSE IF f = "cn" THEN {"strict", "lenient"} ELSE {"plain", "strict", "lenient"}
AlStrict(x, y) == /\ x.m1 = y.m1 /\ (x.m1 => x.c1 = y.c1)
                  /\ x.m2 = y.m2 /\ (x.m2 => x.c2 = y.c2)
AlCompat(x, y) == /\ (x.m1 /\ y.m1) => x.c1 = y.c1
                  /\ (x.m2 /\ y.m2) => x.c2 = y.c2
Uniform(rd, f, a, i, j) ==   \* rows i..j of a all share one level under reading rd
    /\ \A n \in i..j : Lv(f, a[i]) = Lv(f, a[n])
    /\ rd = "strict"  => \A n \in i..j : AlStrict(a[i], a[n])
    /\ rd = "lenient" => \A n \in i..j : \A m \in n..j : AlCompat(a[n], a[m])

(* ================================================================= log2 arithmetic ===== *)
(* exact weighted mean of rows i..j with weights wt (a function on i..j):                   *)
(*   (A + B/T) / D in grid units, returned normalised as <<A2, B2, D>>, 0 <= B2 < T          *)
WMean(a, i, j, wt) ==
    LET A == SumFn([n \in i..j |-> wt[n] * a[n].lh], i, j)
        B == SumFn([n \in i..j |-> wt[n] * a[n].ll], i, j)
        D == SumFn(wt, i, j)
    IN <<A + B \div T, B % T, D>>
(* | (h + l/T) - (A2 + B2/T)/D | <= Tol/T, by cross-multiplication with a magnitude guard     *)
Close(h, l, q) ==
    LET x == h * q[3] - q[1] IN
    IF Abs(x) > q[3] + Tol + 2 THEN FALSE
    ELSE Abs(x * T + l * q[3] - q[2]) <= Tol * q[3]
(* (h1 + l1/T) <= (h2 + l2/T) + Tol/T *)
PairLeq(h1, l1, h2, l2) == \/ h1 < h2 - 1
                           \/ Abs(h1 - h2) <= 1 /\ (h1 - h2) * T + l1 - l2 <= Tol
(* nearest sub-unit value of a rational (for the A-layer's concrete rows) *)
RoundQ(q) ==
    LET D == q[3]
        h0 == IF q[1] >= 0 THEN q[1] \div D ELSE -((-q[1] + D - 1) \div D)   \* floor
        ra == q[1] - h0 * D
        num == ra * T + q[2]
        l0 == (2 * num + D) \div (2 * D)
    IN IF l0 >= T THEN <<h0 + 1, l0 - T>> ELSE <<h0, l0>>

(* ================================================================= P-layer ============= *)
(* the input rows an output row stands for: those of its chromosome lying inside it          *)
CovSet(a, o) == {n \in Idx(a) : a[n].c = o.c /\ o.s <= a[n].s /\ a[n].e <= o.e}
Cov(a, out) == [k \in Idx(out) |-> LET S == CovSet(a, out[k]) IN
                                   IF S = {} THEN <<0, -1>> ELSE <<Min(S), Max(S)>>]
ChromSet(t) == {t[n].c : n \in Idx(t)}
OnChrom(t, c) == {n \in Idx(t) : t[n].c = c}

(* the run of the block before / after output row k, as an index interval of a; <<0,-1>> if none *)
PrevBlock(a, out, cv, k) ==
    LET i == cv[k][1] IN
    IF k > 1 /\ cv[k-1][1] > 0 /\ cv[k-1][2] = i - 1 /\ out[k-1].c = out[k].c THEN cv[k-1]
    ELSE IF i > 1 /\ a[i-1].c = out[k].c THEN <<i - 1, i - 1>> ELSE <<0, -1>>
NextBlock(a, out, cv, k) ==
    LET j == cv[k][2] IN
    IF k < Len(out) /\ cv[k+1][1] = j + 1 /\ out[k+1].c = out[k].c THEN cv[k+1]
    ELSE IF j < Len(a) /\ a[j+1].c = out[k].c THEN <<j + 1, j + 1>> ELSE <<0, -1>>

NoMerge(rd, f, cols, a, out, cv) ==
    \A k \in Idx(out) : cv[k][1] > 0 => Uniform(rd, f, a, cv[k][1], cv[k][2])
Maximal(rd, f, cols, a, out, cv) ==
    \A k \in Idx(out) : cv[k][1] > 0 =>
        LET p == PrevBlock(a, out, cv, k)
            q == NextBlock(a, out, cv, k)
        IN /\ p[1] > 0 => ~Uniform(rd, f, a, p[1], cv[k][2])
           /\ q[1] > 0 => ~Uniform(rd, f, a, cv[k][1], q[2])

StepClauses == {"noerr", "spans_first_to_last", "partition", "never_across_chromosomes",
                "no_merge_across_level", "neighbours_differ", "level_runs", "sums_probes_weight",
                "log2_weighted_mean", "totals_conserved", "ampdel_keeps_amp_del_only", "cn_kept"}

(* one application of filter f to table a (columns cols) with observed result out / err *)
StepHolds(c, f, cols, a, out, err) ==
    IF c = "noerr" THEN err = ""
    ELSE IF err # "" THEN TRUE
    ELSE LET cv == Cov(a, out) IN
    CASE c = "spans_first_to_last" ->
           (* "by one segment spanning from the run's first start to its last end" *)
           \A k \in Idx(out) : /\ cv[k][1] > 0
                               /\ out[k].s = a[cv[k][1]].s /\ out[k].e = a[cv[k][2]].e
      [] c = "partition" ->
           (* "replaces every maximal run ... by one segment": the outputs stand for disjoint   *)
           (* blocks in input order; except for ampdel every input row is in exactly one        *)
           /\ \A k \in 1..Len(out)-1 : cv[k][1] > 0 /\ cv[k+1][1] > 0 /\ cv[k][2] < cv[k+1][1]
           /\ f # "ampdel" =>
                /\ (Len(out) = 0) = (Len(a) = 0)
                /\ Len(out) > 0 => /\ cv[1][1] = 1 /\ cv[Len(out)][2] = Len(a)
                                   /\ \A k \in 1..Len(out)-1 : cv[k+1][1] = cv[k][2] + 1
      [] c = "never_across_chromosomes" ->
           (* "Segments never merge across chromosomes": both ends of an output row are ends of *)
           (* input rows of its own chromosome, and no chromosome disappears into another       *)
           /\ \A k \in Idx(out) : /\ \E n \in Idx(a) : a[n].c = out[k].c /\ a[n].s = out[k].s
                                  /\ \E n \in Idx(a) : a[n].c = out[k].c /\ a[n].e = out[k].e
           /\ f # "ampdel" => ChromSet(out) = ChromSet(a)
      [] c = "no_merge_across_level" ->
           (* "never merge ... across a level change" (under some admissible reading) *)
           \E rd \in Readings(f, cols) : NoMerge(rd, f, cols, a, out, cv)
      [] c = "neighbours_differ" ->
           (* "neighbouring outputs differ in level" / runs are maximal (under some admissible reading) *)
           \E rd \in Readings(f, cols) : Maximal(rd, f, cols, a, out, cv)
      [] c = "level_runs" ->
           (* both at once.  cn: under one consistent reading of missing values.  Other filters on a *)
           (* table with cn1/cn2: runs of the filter's level, which may additionally be cut where  *)
           (* the allele-specific state differs (no merge across the plain level; no two           *)
           (* neighbours that agree in level and allele-specific state)                           *)
           IF f = "cn" \/ ~cols.al
           THEN \E rd \in Readings(f, cols) : NoMerge(rd, f, cols, a, out, cv) /\ Maximal(rd, f, cols, a, out, cv)
           ELSE NoMerge("plain", f, cols, a, out, cv) /\ Maximal("strict", f, cols, a, out, cv)
      [] c = "sums_probes_weight" ->
           (* "whose probes and weight are the sums" *)
           \A k \in Idx(out) : cv[k][1] > 0 =>
               /\ ~Bit(out[k].bad, 2) /\ ~Bit(out[k].bad, 8)
               /\ out[k].p = SumFn([n \in cv[k][1]..cv[k][2] |-> a[n].p], cv[k][1], cv[k][2])
               /\ out[k].w = SumFn([n \in cv[k][1]..cv[k][2] |-> a[n].w], cv[k][1], cv[k][2])
      [] c = "log2_weighted_mean" ->
           (* "whose log2 is the weight-averaged log2 of the run"; for a run of total weight 0  *)
           (* the weighted mean is undefined: any value within the run's [min, max] is accepted *)
           \A k \in Idx(out) : cv[k][1] > 0 =>
               LET i == cv[k][1]
                   j == cv[k][2]
                   wt == [n \in i..j |-> a[n].w]
               IN /\ ~Bit(out[k].bad, 1)
                  /\ IF SumFn(wt, i, j) > 0 THEN Close(out[k].lh, out[k].ll, WMean(a, i, j, wt))
                     ELSE /\ \E n \in i..j : PairLeq(a[n].lh, a[n].ll, out[k].lh, out[k].ll)
                          /\ \E n \in i..j : PairLeq(out[k].lh, out[k].ll, a[n].lh, a[n].ll)
      [] c = "totals_conserved" ->
           (* "total probes, total weight and each chromosome's covered span are conserved" *)
           f # "ampdel" =>
               /\ SumAll([k \in Idx(out) |-> out[k].p]) = SumAll([n \in Idx(a) |-> a[n].p])
               /\ SumAll([k \in Idx(out) |-> out[k].w]) = SumAll([n \in Idx(a) |-> a[n].w])
               /\ \A ch \in ChromSet(a) \cup ChromSet(out) :
                     /\ OnChrom(out, ch) # {} /\ OnChrom(a, ch) # {}
                     /\ Min({out[k].s : k \in OnChrom(out, ch)}) = Min({a[n].s : n \in OnChrom(a, ch)})
                     /\ Max({out[k].e : k \in OnChrom(out, ch)}) = Max({a[n].e : n \in OnChrom(a, ch)})
      [] c = "ampdel_keeps_amp_del_only" ->
           (* "(ampdel then keeps only the cn = 0 or cn >= 5 runs)": every deleted / amplified row *)
           (* is in a kept output, no other row is, and the kept outputs are deleted / amplified   *)
           f = "ampdel" =>
               /\ \A n \in Idx(a) : (Lv(f, a[n]) # 0) = (\E k \in Idx(out) : cv[k][1] <= n /\ n <= cv[k][2])
               /\ \A k \in Idx(out) : ~Bit(out[k].bad, 4) /\ (out[k].cn = 0 \/ out[k].cn >= 5 * CS)
      [] c = "cn_kept" ->
           (* the segment that replaces a run of equal cn carries that cn *)
           f = "cn" => \A k \in Idx(out) : cv[k][1] > 0 => ~Bit(out[k].bad, 4) /\ out[k].cn = a[cv[k][1]].cn
      [] OTHER -> FALSE

(* ---------------------------------------------------------------- do_call ------------- *)
(* "ci/sem act first, before calling; the others after, in the order given" *)
IsPre(f) == f \in {"ci", "sem"}
CallOrder(fl) == SelectSeq(<<"ci", "sem">>, LAMBDA f : \E n \in Idx(fl) : fl[n] = f)
                 \o SelectSeq(fl, LAMBDA f : ~IsPre(f))

CoreRow(x) == <<x.c, x.s, x.e, x.lh, x.ll, x.p, x.w>>
CnRow(x)   == <<x.cn, x.m1, IF x.m1 THEN x.c1 ELSE 0, x.m2, IF x.m2 THEN x.c2 ELSE 0>>
SameCore(t, u) == Len(t) = Len(u) /\ \A n \in Idx(t) : CoreRow(t[n]) = CoreRow(u[n])
SameCn(t, u)   == Len(t) = Len(u) /\ \A n \in Idx(t) : CnRow(t[n]) = CnRow(u[n])
SameStats(t, u) == Len(t) = Len(u) /\ \A n \in Idx(t) : <<t[n].lo, t[n].hi, t[n].se>> = <<u[n].lo, u[n].hi, u[n].se>>

CallClauses == {"call_noerr", "filter_order", "ci_sem_before_calling", "others_after_calling", "chain",
                "result_is_last"}

CallHolds(c, r) ==
    IF c = "call_noerr" THEN r.err = "" /\ \A k \in Idx(r.steps) : r.steps[k].err = ""
    ELSE IF r.err # "" THEN TRUE
    ELSE
    CASE c = "filter_order" ->
           [k \in Idx(r.steps) |-> r.steps[k].f] = CallOrder(r.filters)
      [] c = "ci_sem_before_calling" ->
           (* the ci / sem filter sees the caller's table, columns untouched by calling *)
           \A k \in Idx(r.steps) : IsPre(r.steps[k].f) =>
               /\ k = 1
               /\ SameCore(r.steps[k].a, r.a) /\ SameStats(r.steps[k].a, r.a) /\ r.steps[k].cols = r.cols
               /\ r.cols.cn => SameCn(r.steps[k].a, r.a)
      [] c = "others_after_calling" ->
           (* cn / ampdel see a called table *)
           \A k \in Idx(r.steps) : ~IsPre(r.steps[k].f) => (r.steps[k].cols.cn \/ Len(r.steps[k].a) = 0)
      [] c = "chain" ->
           (* each filter works on what the previous one (or the caller) delivered; calling in   *)
           (* between may only add / replace the cn columns                                      *)
           \A k \in Idx(r.steps) :
               LET prev == IF k = 1 THEN r.a ELSE r.steps[k-1].out
                   called == r.method # "none" /\ ~IsPre(r.steps[k].f) /\ (k = 1 \/ IsPre(r.steps[k-1].f))
               IN /\ SameCore(r.steps[k].a, prev)
                  /\ (~called /\ (IF k = 1 THEN r.cols.cn ELSE r.steps[k-1].cols.cn)) => SameCn(r.steps[k].a, prev)
      [] c = "result_is_last" ->
           IF Len(r.steps) = 0 THEN SameCore(r.out, r.a)
           ELSE LET o == r.steps[Len(r.steps)].out IN
                /\ SameCore(r.out, o)
                /\ (r.method = "none" \/ ~IsPre(r.steps[Len(r.steps)].f)) => SameCn(r.out, o)
      [] OTHER -> FALSE

(* a record is one direct call of a filter (op = the filter's name) or one do_call (op = "call") *)
IsDirect(r) == r.op \in FilterNames
Clauses(op) == CASE op = "call"   -> StepClauses \cup CallClauses
                 [] op = "cn"     -> StepClauses \ {"ampdel_keeps_amp_del_only"}
                 [] op = "ampdel" -> StepClauses \ {"cn_kept", "totals_conserved"}
                 [] op \in {"ci", "sem"} -> StepClauses \ {"cn_kept", "ampdel_keeps_amp_del_only"}
                 [] OTHER         -> {}

Holds(c, r) ==
    IF IsDirect(r) THEN StepHolds(c, r.f, r.cols, r.a, r.out, r.err)
    ELSE IF c \in CallClauses THEN CallHolds(c, r)
    ELSE \A k \in Idx(r.steps) :
            StepHolds(c, r.steps[k].f, r.steps[k].cols, r.steps[k].a, r.steps[k].out, r.steps[k].err)

(* ================================================================= premise ============= *)
IsPow2(n) == n \in {1, 2, 4, 8, 16, 32, 64, 128, 256, 512, 1024}
TableOK(a) ==
    /\ \A n \in Idx(a) :
          /\ a[n].bad = 0 /\ 0 <= a[n].s /\ a[n].s < a[n].e
          /\ Abs(a[n].lh) <= MaxL /\ 0 <= a[n].ll /\ a[n].ll < T
          /\ a[n].w >= 0 /\ a[n].p >= 0 /\ a[n].cn >= 0
    (* sorted: chromosomes contiguous in ordinal order, rows of a chromosome disjoint and in order *)
    /\ \A n \in 1..Len(a)-1 : \/ a[n].c < a[n+1].c
                              \/ a[n].c = a[n+1].c /\ a[n].e <= a[n+1].s
    /\ \A ch \in ChromSet(a) : SumAll([n \in Idx(a) |-> IF a[n].c = ch THEN a[n].w ELSE 0]) <= MaxW
    /\ SumAll([n \in Idx(a) |-> a[n].p]) < 1000000000
    (* allele-specific copy numbers come from do_call (baf): cn1 and cn2 are missing together *)
    /\ \A n \in Idx(a) : a[n].m1 = a[n].m2
NeedsOK(f, cols, a) ==
    CASE f = "cn" -> cols.cn
      [] f = "ampdel" -> cols.cn
      [] f = "ci" -> cols.ci /\ \A n \in Idx(a) : a[n].lo <= a[n].hi
      [] f = "sem" -> /\ cols.sem
                      /\ \A n \in Idx(a) :
                            /\ a[n].ll = 0 /\ a[n].se >= 0 /\ a[n].se <= 1024
                            (* log2 = +-1.96*sem exactly only where the float product is exact: sem = 2^k *)
                            /\ Abs(a[n].lh) = Z49 * a[n].se => (a[n].se = 0 \/ IsPow2(a[n].se))
      [] OTHER -> FALSE
Distinct(fl) == \A n, m \in Idx(fl) : n # m => fl[n] # fl[m]
Has(fl, f) == \E n \in Idx(fl) : fl[n] = f
Premise(r) ==
    /\ r.op \in FilterNames \cup {"call"}
    /\ Len(r.a) >= 1 /\ TableOK(r.a)
    /\ IsDirect(r) => r.f = r.op /\ NeedsOK(r.f, r.cols, r.a)
    /\ r.op = "call" =>
         /\ r.method \in Methods
         /\ \A n \in Idx(r.filters) : r.filters[n] \in FilterNames
         /\ Distinct(r.filters) /\ ~(Has(r.filters, "ci") /\ Has(r.filters, "sem"))
         /\ \A n \in Idx(r.filters) : IsPre(r.filters[n]) => NeedsOK(r.filters[n], r.cols, r.a)
         /\ (r.method = "none" /\ (Has(r.filters, "cn") \/ Has(r.filters, "ampdel"))) => r.cols.cn

(* ================================================================= A-layer ============= *)
(* enumerate_changes: levels.diff().fillna(0).abs().cumsum().astype(int)                    *)
(*   lv: levels as integers scaled by sc; kn[n] = value present (not NaN).  A difference     *)
(*   involving a NaN is NaN and is *filled with 0* (no change is counted across a NaN), and  *)
(*   astype(int) truncates the running sum (a fractional change is not counted either).      *)
RECURSIVE EnumFrom(_, _, _, _, _, _)
EnumFrom(lv, kn, sc, n, cum, acc) ==
    IF n > Len(lv) THEN acc
    ELSE LET d == IF n = 1 \/ ~kn[n] \/ ~kn[n-1] THEN 0 ELSE Abs(lv[n] - lv[n-1])
         IN EnumFrom(lv, kn, sc, n + 1, cum + d, Append(acc, (cum + d) \div sc))
(* the repair proposed with findings F-C14-cn-allelic-bridge / F-C14-cn-fractional-level:    *)
(*   enumerate_changes = levels.diff().fillna(0).ne(0).cumsum()  (every non-zero difference  *)
(*   is one change), and squash_by_groups forward-fills cn1 / cn2 within each _group first   *)
(*   (a missing value joins the known state before it in its group and cannot bridge two)    *)
RECURSIVE EnumRepairedFrom(_, _, _, _, _)
EnumRepairedFrom(lv, kn, n, cum, acc) ==
    IF n > Len(lv) THEN acc
    ELSE LET d == IF n > 1 /\ kn[n] /\ kn[n-1] /\ lv[n] # lv[n-1] THEN 1 ELSE 0
         IN EnumRepairedFrom(lv, kn, n + 1, cum + d, Append(acc, cum + d))
(* which of the two the A-layer follows: "code" = cnvlib as it is now; switch to "repaired"  *)
(* when the repair is committed (then the two findings' triggers no longer fire)             *)
EnumVariant == "repaired"
EnumerateChanges(lv, kn, sc) == IF EnumVariant = "code" THEN EnumFrom(lv, kn, sc, 1, 0, <<>>)
                                ELSE EnumRepairedFrom(lv, kn, 1, 0, <<>>)
(* data.groupby("_group")[col].ffill(): <<known, value>> per row *)
FfillInGroup(lv, kn, grp) ==
    [n \in Idx(lv) |->
        IF kn[n] THEN <<TRUE, lv[n]>>
        ELSE LET src == {m \in 1..(n-1) : grp[m] = grp[n] /\ kn[m]}
             IN IF src = {} THEN <<FALSE, 0>> ELSE <<TRUE, lv[Max(src)]>>]

(* chromosome ordinal by first appearance: cnarr["chromosome"].unique() *)
RECURSIVE ChromOrdFrom(_, _, _, _)
ChromOrdFrom(a, n, seen, acc) ==
    IF n > Len(a) THEN acc
    ELSE LET pos == {k \in Idx(seen) : seen[k] = a[n].c}
         IN IF pos = {} THEN ChromOrdFrom(a, n + 1, Append(seen, a[n].c), Append(acc, Len(seen)))
            ELSE ChromOrdFrom(a, n + 1, seen, Append(acc, (CHOOSE k \in pos : TRUE) - 1))
ChromOrd(a) == ChromOrdFrom(a, 1, <<>>, <<>>)

LvScale(f) == IF f = "cn" THEN CS ELSE 1
AllKnown(a) == [n \in Idx(a) |-> TRUE]
GroupKeys(f, cols, a) ==
    LET ch == EnumerateChanges([n \in Idx(a) |-> Lv(f, a[n])], AllKnown(a), LvScale(f))
        co == ChromOrd(a)
        grp == [n \in Idx(a) |-> ch[n] + co[n]]
        AlKey(lv, kn) == IF EnumVariant = "code" THEN EnumerateChanges(lv, kn, CS)
                         ELSE LET ff == FfillInGroup(lv, kn, grp)
                              IN EnumerateChanges([n \in Idx(a) |-> ff[n][2]], [n \in Idx(a) |-> ff[n][1]], CS)
        g1 == IF cols.al THEN AlKey([n \in Idx(a) |-> a[n].c1], [n \in Idx(a) |-> a[n].m1])
              ELSE [n \in Idx(a) |-> 0]
        g2 == IF cols.al THEN AlKey([n \in Idx(a) |-> a[n].c2], [n \in Idx(a) |-> a[n].m2])
              ELSE [n \in Idx(a) |-> 0]
    IN [n \in Idx(a) |-> <<grp[n], g1[n], g2[n]>>]
(* NB squash_by_groups keys on _g1/_g2 whenever cn1 is a column, for every filter *)

(* groupby(sort=False): groups in order of first appearance, rows in table order *)
RECURSIVE GroupFrom(_, _, _)
GroupFrom(keys, n, acc) ==
    IF n > Len(keys) THEN acc
    ELSE LET pos == {k \in Idx(acc) : acc[k][1] = keys[n]}
         IN IF pos = {} THEN GroupFrom(keys, n + 1, Append(acc, <<keys[n], <<n>>>>))
            ELSE LET k == CHOOSE x \in pos : TRUE
                 IN GroupFrom(keys, n + 1, [acc EXCEPT ![k] = <<@[1], Append(@[2], n)>>])
GroupsOf(keys) == LET g == GroupFrom(keys, 1, <<>>) IN [k \in Idx(g) |-> g[k][2]]

(* stable insertion sort of positions 1..Len(v) by value.  numpy's argsort is NOT stable (SIMD   *)
(* sorting networks even for a handful of values), so where equal values carry different weights  *)
(* weighted_median's result depends on an unspecified order; Determined says when it does not     *)
Determined(v, w) == \/ \A i, j \in Idx(v) : v[i] = v[j]
                    \/ \A i, j \in Idx(v) : v[i] = v[j] => w[i] = w[j]
RECURSIVE InsPos(_, _, _)
InsPos(v, sorted, p) == IF sorted = <<>> THEN <<p>>
                        ELSE IF v[p] < v[Head(sorted)] THEN <<p>> \o sorted
                        ELSE <<Head(sorted)>> \o InsPos(v, Tail(sorted), p)
RECURSIVE SortPosFrom(_, _, _)
SortPosFrom(v, n, acc) == IF n > Len(v) THEN acc ELSE SortPosFrom(v, n + 1, InsPos(v, acc, n))
SortPos(v) == SortPosFrom(v, 1, <<>>)

(* descriptives.weighted_median behind on_weighted_array, branch for branch *)
WeightedMedian(v, w) ==
    IF Len(v) = 1 THEN v[1]                               \* on_weighted_array: single value
    ELSE LET o  == SortPos(v)
             sa == [k \in Idx(o) |-> v[o[k]]]
             sw == [k \in Idx(o) |-> w[o[k]]]
             tot == SumAll(sw)
             big == {k \in Idx(sw) : 2 * sw[k] > tot}
         IN IF big # {}                                    \* a point holding the majority of the weight
            THEN sa[Min({k \in Idx(sw) : \A m \in Idx(sw) : sw[k] >= sw[m]})]     \* argmax: first maximum
            ELSE LET idx == Min({k \in Idx(sw) : 2 * SumFn(sw, 1, k) >= tot})     \* searchsorted(midpoint)
                 IN IF idx < Len(sa) /\ 2 * SumFn(sw, 1, idx) = tot   \* |cum[idx] - midpoint| < eps (exact on the grid)
                    THEN (sa[idx] + sa[idx+1]) \div 2     \* half of the weight on either side of the gap
                    ELSE sa[idx]
Median(v) ==
    LET o == SortPos(v)
        n == Len(v)
    IN IF n % 2 = 1 THEN v[o[(n + 1) \div 2]] ELSE (v[o[n \div 2]] + v[o[n \div 2 + 1]]) \div 2

(* squash_region on the rows `g` (positions in a); log2 kept as an exact rational `lq` *)
SquashRegion(cols, a, g) ==
    LET n  == Len(g)
        W  == SumAll([k \in 1..n |-> a[g[k]].w])
        rows == [k \in 1..n |-> a[g[k]]]
        lq == IF W > 0 THEN WMean(rows, 1, n, [k \in 1..n |-> rows[k].w])     \* np.average(weights=)
              ELSE WMean(rows, 1, n, [k \in 1..n |-> 1])                     \* np.mean
        cnv == [k \in 1..n |-> rows[k].cn]
        wv  == [k \in 1..n |-> rows[k].w]
        cn == IF ~cols.cn THEN 0 ELSE IF W > 0 THEN WeightedMedian(cnv, wv) ELSE Median(cnv)
        kn == SelectSeq([k \in 1..n |-> k], LAMBDA k : rows[k].m1)
        has1 == cols.al /\ (IF W > 0 THEN kn # <<>> ELSE Len(kn) = n)        \* np.median: any NaN -> NaN
        c1 == IF ~has1 THEN 0
              ELSE IF W > 0 THEN WeightedMedian([k \in Idx(kn) |-> rows[kn[k]].c1], [k \in Idx(kn) |-> rows[kn[k]].w])
              ELSE Median([k \in 1..n |-> rows[k].c1])
        cnok == \/ W = 0
                \/ /\ cols.cn => Determined(cnv, wv)
                   /\ has1 => Determined([k \in Idx(kn) |-> rows[kn[k]].c1], [k \in Idx(kn) |-> rows[kn[k]].w])
    IN [c |-> rows[1].c, s |-> rows[1].s, e |-> rows[n].e, lq |-> lq, cnok |-> cnok,
        p |-> SumAll([k \in 1..n |-> rows[k].p]), w |-> W,
        cn |-> cn, m1 |-> has1, c1 |-> c1, m2 |-> has1, c2 |-> IF has1 THEN cn - c1 ELSE 0]   \* cn2 = cn - cn1

(* squash_by_groups + the filter's own tail (ampdel: keep cn == 0 | cn >= 5) *)
AFilter(f, cols, a) ==
    LET gs == GroupsOf(GroupKeys(f, cols, a))
        sq == [k \in Idx(gs) |-> SquashRegion(cols, a, gs[k])]
    IN IF f = "ampdel" THEN SelectSeq(sq, LAMBDA x : x.cn = 0 \/ x.cn >= 5 * CS) ELSE sq
ColsAfter(cols) == [cn |-> cols.cn, al |-> cols.al, ci |-> FALSE, sem |-> FALSE]
Concrete(x) == LET hl == RoundQ(x.lq) IN
    [c |-> x.c, s |-> x.s, e |-> x.e, lh |-> hl[1], ll |-> hl[2], p |-> x.p, w |-> x.w, cn |-> x.cn,
     m1 |-> x.m1, c1 |-> x.c1, m2 |-> x.m2, c2 |-> x.c2, lo |-> 0, hi |-> 0, se |-> 0, bad |-> 0]
AFilterRows(f, cols, a) == LET t == AFilter(f, cols, a) IN [k \in Idx(t) |-> Concrete(t[k])]

(* do_call with the calling step as the identity (method "none"): the steps it performs *)
RECURSIVE AStepsFrom(_, _, _, _)
AStepsFrom(order, k, tab, cols) ==
    IF k > Len(order) THEN <<>>
    ELSE LET o == AFilterRows(order[k], cols, tab)
         IN <<[f |-> order[k], a |-> tab, cols |-> cols, out |-> o, err |-> ""]>>
            \o AStepsFrom(order, k + 1, o, ColsAfter(cols))
ACallSteps(a, cols, filters) == AStepsFrom(CallOrder(filters), 1, a, cols)

(* ---------------------------------------------------------------- drift --------------- *)
(* cn / cn1 / cn2 are compared where weighted_median's result does not depend on the sort order *)
RowMatches(cols, o, x) ==
    /\ <<o.c, o.s, o.e, o.p, o.w>> = <<x.c, x.s, x.e, x.p, x.w>>
    /\ o.bad = 0
    /\ Close(o.lh, o.ll, x.lq)
    /\ (cols.cn /\ x.cnok) => /\ o.cn = x.cn
                              /\ cols.al => (o.m1 = x.m1 /\ o.m2 = x.m2 /\ (x.m1 => (o.c1 = x.c1 /\ o.c2 = x.c2)))
StepDrift(f, cols, a, out, err) ==
    /\ err = ""
    /\ LET t == AFilter(f, cols, a) IN
       \/ Len(t) # Len(out)
       \/ \E k \in Idx(t) : ~RowMatches(cols, out[k], t[k])
Drift(r) ==
    IF IsDirect(r) THEN StepDrift(r.f, r.cols, r.a, r.out, r.err)
    ELSE r.err = "" /\ \E k \in Idx(r.steps) :
            StepDrift(r.steps[k].f, r.steps[k].cols, r.steps[k].a, r.steps[k].out, r.steps[k].err)

(* ================================================================= known findings ====== *)
(* AllelicBridge: the `cn` filter is given rows i < j of one chromosome with known, different *)
(* cn1 (or cn2) and nothing in between that enumerate_changes counts as a change: equal cn    *)
(* throughout, and between i and j only missing values in that column -- so i and j land in    *)
(* one group (candidate 11 of DESIGN section 10).                                             *)
NoCountedChange(a, i, j) ==
    \A n \in i..(j-1) :
        /\ a[n].c = a[n+1].c /\ a[n].cn = a[n+1].cn
        /\ (a[n].m1 /\ a[n+1].m1) => a[n].c1 = a[n+1].c1
        /\ (a[n].m2 /\ a[n+1].m2) => a[n].c2 = a[n+1].c2
AllelicBridge(f, cols, a) ==
    /\ f = "cn" /\ cols.al
    /\ \E i \in Idx(a) : \E j \in (i+2)..Len(a) :
          /\ NoCountedChange(a, i, j)
          /\ \/ a[i].m1 /\ a[j].m1 /\ a[i].c1 # a[j].c1 /\ \A n \in (i+1)..(j-1) : ~a[n].m1
             \/ a[i].m2 /\ a[j].m2 /\ a[i].c2 # a[j].c2 /\ \A n \in (i+1)..(j-1) : ~a[n].m2
(* FractionalLevel: the `cn` filter is given neighbouring rows of one chromosome whose cn (or  *)
(* known cn1 / cn2) differ by a non-integer amount -- the values are fractional after an       *)
(* earlier filter took the weighted median of a mixed run; astype(int) in enumerate_changes    *)
(* truncates the running sum of changes, so such a change may not be counted.                  *)
FractionalLevel(f, cols, a) ==
    /\ f = "cn"
    /\ \E n \in 1..Len(a)-1 :
          /\ a[n].c = a[n+1].c
          /\ \/ Abs(a[n].cn - a[n+1].cn) % CS # 0
             \/ cols.al /\ a[n].m1 /\ a[n+1].m1 /\ Abs(a[n].c1 - a[n+1].c1) % CS # 0
             \/ cols.al /\ a[n].m2 /\ a[n+1].m2 /\ Abs(a[n].c2 - a[n+1].c2) % CS # 0
StepTrigger(t, f, cols, a) ==
    CASE t = "AllelicBridge" -> AllelicBridge(f, cols, a)
      [] t = "FractionalLevel" -> FractionalLevel(f, cols, a)
      [] OTHER -> FALSE
KnownTriggers == {"AllelicBridge", "FractionalLevel"}
(* the clauses the two findings break; within a do_call record a trigger only counts if every *)
(* filter application that matches no trigger satisfies them (so a listed finding in one step  *)
(* cannot excuse an unrelated failure of the same clause in another)                           *)
FindingClauses == {"no_merge_across_level", "level_runs", "cn_kept"}
TriggerHolds(t, r) ==
    IF IsDirect(r) THEN StepTrigger(t, r.f, r.cols, r.a)
    ELSE /\ \E k \in Idx(r.steps) : StepTrigger(t, r.steps[k].f, r.steps[k].cols, r.steps[k].a)
         /\ \A k \in Idx(r.steps) :
               (\E u \in KnownTriggers : StepTrigger(u, r.steps[k].f, r.steps[k].cols, r.steps[k].a))
               \/ \A c \in FindingClauses :
                     StepHolds(c, r.steps[k].f, r.steps[k].cols, r.steps[k].a, r.steps[k].out, r.steps[k].err)
=============================================================================
