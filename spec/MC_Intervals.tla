--------------------------- MODULE MC_Intervals ---------------------------
(* Design check + enumerator for C06: every input in the small scope, one step per operation *)
(* computing the A-layer result; invariants are the P-layer clauses.  The dump of this run   *)
(* is replayed into the real skgenome code (direction 1).                                    *)
EXTENDS Intervals
CONSTANTS MaxCoord,   \* coordinates 0..MaxCoord
          MaxA, MaxB, \* rows per table
          NChrom,     \* chromosomes 1..NChrom
          Ops,        \* operations enumerated in this run
          Genes       \* values of the extra field

Rows == {<<c, s, e, g>> : c \in 1..NChrom, s \in 0..MaxCoord, e \in 0..MaxCoord, g \in Genes}
PosRows == {r \in Rows : S(r) < E(r)}
(* sorted multisets of up to n rows; rows equal in (c,s,e) are ordered by g to avoid permutations *)
FullLeq(x, y) == RowLeq(x, y) /\ (Coords(<<x>>) = Coords(<<y>>) => G(x) <= G(y))
RECURSIVE Tabs(_)
Tabs(n) == IF n = 0 THEN {<<>>}
           ELSE LET prev == Tabs(n-1) IN
                prev \cup {Append(t, r) : t \in {p \in prev : Len(p) = n-1}, r \in PosRows}
GLeq(x, y) == \/ C(x) < C(y) \/ (C(x) = C(y) /\ S(x) < S(y)) \/ (C(x) = C(y) /\ S(x) = S(y) /\ E(x) < E(y))
              \/ (C(x) = C(y) /\ S(x) = S(y) /\ E(x) = E(y))
Tables(n) == {t \in Tabs(n) : \A k \in 1..Len(t)-1 : GLeq(t[k], t[k+1])}

Params(op) == CASE op = "merge"     -> {<<bp, 0>> : bp \in 0..2}
                [] op = "subdivide" -> {<<avg, mn>> : avg \in 1..3, mn \in 0..2}
                [] op = "resize"    -> {<<bp, sz>> : bp \in -2..2, sz \in {-1, MaxCoord}}
                [] OTHER            -> {<<0, 0>>}

VARIABLES a, b, op, par, ph, out
vars == <<a, b, op, par, ph, out>>
Rec == [op |-> op, a |-> a, b |-> b, out |-> out, err |-> "", p1 |-> par[1], p2 |-> par[2],
        p3 |-> IF op = "total" THEN CoveredBases(a) ELSE 0]

Init == /\ op \in Ops
        /\ a \in Tables(MaxA)
        /\ b \in IF op \in BinaryOps THEN Tables(MaxB) ELSE {<<>>}
        /\ par \in Params(op)
        /\ ph = "call" /\ out = <<>>
Call == /\ ph = "call" /\ ph' = "ret"
        /\ out' = ALayer([op |-> op, a |-> a, b |-> b, out |-> <<>>, err |-> "", p1 |-> par[1], p2 |-> par[2], p3 |-> 0])
        /\ UNCHANGED <<a, b, op, par>>
Next == Call
Spec == Init /\ [][Next]_vars

(* design-level statement: the algorithm as modelled satisfies every clause of the property *)
DesignOK == ph = "ret" => \A c \in Clauses(op) : Holds(c, Rec)
(* what the unrepaired first/last subtraction would have produced: kept to show the defect   *)
DesignOldSubtract == (ph = "ret" /\ op = "subtract") =>
    Holds("sub_covers_difference", [Rec EXCEPT !.out = SubtractFirstLast(a, b)])
=============================================================================
