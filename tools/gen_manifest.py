#!/usr/bin/env python3
"""Generate /verif/MANIFEST.json from harness/registry.py (one source of truth)."""
import json, os, sys
here = os.path.dirname(os.path.dirname(os.path.abspath(__file__)))
sys.path.insert(0, here)
from harness.registry import CHECKS, NOT_APPLICABLE, HOOK_COMMITS, ENGINES, NOTES

checks = []
for c in sorted(CHECKS, key=lambda c: c["id"]):
    pid = c["id"]
    checks.append({
        "property_id": pid,
        "quick_cmd": f"./check {pid} --tier quick",
        "thorough_cmd": f"./check {pid} --tier thorough",
        "evidence_file": f"/verif/evidence/{pid}.json",
        "replay_cmd_template": f"./check {pid} --replay {{path}}",
        "engine": "tla-model-and-conformance",
        "level_claimed": {"category": c["level"], "text": c["text"], "design_ref": c["design_ref"]},
        "level_note": c["note"],
        "technique": c["technique"],
    })
man = {
    "version": 1,
    "setup_cmd": "./setup.sh",
    "hooks": {
        "guard": "CNVKIT_VERIF",
        "enable": "environment variable CNVKIT_VERIF=1 (set by ./check); cnvlib/skgenome are imported straight from /repo's working tree, no build step",
        "baseline_off_cmd": "cd /repo && env -u CNVKIT_VERIF /venv/bin/python -m pytest -ra -q -p no:cacheprovider --timeout=900 --continue-on-collection-errors",
        "source_commits": HOOK_COMMITS,
        "add_only": True,
    },
    "engines": ENGINES,
    "checks": checks,
    "notes": NOTES,
    "not_applicable": NOT_APPLICABLE,
}
json.dump(man, open(os.path.join(here, "MANIFEST.json"), "w"), indent=1)
print("MANIFEST.json:", len(checks), "checks;", len(NOT_APPLICABLE), "not_applicable")
