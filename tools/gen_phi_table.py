#!/usr/bin/env python3
"""Generate spec/PhiTable.tla: the two-sided standard normal tail  P(z) = 2 * (1 - Phi(z)) = erfc(z / sqrt 2)
at z = 0.00, 0.01, ..., 8.50 as integer brackets in units of 10^-12, rounded OUTWARD
(PhiLo[k+1] <= P(k/100) * 10^12 <= PhiHi[k+1]).

Run ONCE at specification-writing time; the output is committed and no check regenerates it (DESIGN.md section 4
item 6).  Arithmetic: Python `decimal` at 120 significant digits, independent of scipy / the code under test:

    erf(x)  = 2/sqrt(pi) * sum_{n>=0} (-1)^n x^(2n+1) / (n! (2n+1))          (Maclaurin series; x <= 8.5/sqrt 2 ~ 6.01,
                                                                              largest term ~ e^(x^2) ~ 5e15, so 120
                                                                              digits leave > 100 after cancellation)
    P(z)    = 1 - erf(z / sqrt 2)
    pi      by Machin's formula  pi = 16 atan(1/5) - 4 atan(1/239)

Self-checks before anything is written (the script refuses to write otherwise):
  * every value agrees with math.erfc(z / sqrt 2) to 1e-13 relative (a second, unrelated implementation: libm; the float
    argument z / sqrt 2 alone carries up to 2 x^2 * 1.1e-16 ~ 8e-15 relative error into erfc at x = 6);
  * spot values against Abramowitz & Stegun table 26.1 (P(x) = Phi(x) to 15 decimals): Phi(1) = 0.841344746068543,
    Phi(2) = 0.977249868051821, Phi(3) = 0.998650101968370, and the familiar P(1.96) = 0.0499957902...;
  * the continued fraction  erfc(x) = exp(-x^2)/sqrt(pi) * 1/(x + (1/2)/(x + 1/(x + (3/2)/(x + ...))))  evaluated in
    `decimal` for z >= 3 agrees with the series to 1e-40 (a third route, for the far tail where 1 - erf cancels).
An outward safety margin of 10^-20 (in units of 1, i.e. 10^-8 table units) is applied before floor / ceil.

usage:  tools/gen_phi_table.py [--check]      (--check: recompute and compare with the committed file, write nothing)
"""
import math
import os
import sys
from decimal import Decimal, getcontext, ROUND_FLOOR, ROUND_CEILING

getcontext().prec = 120
D = Decimal
STEP_DEN = 100        # z = k / 100
KMAX = 850            # z <= 8.50
UNIT = D(10) ** 12    # table unit 10^-12
MARGIN = D(10) ** -20


def atan_inv(n):
    """atan(1/n) by its Maclaurin series."""
    x = D(1) / D(n)
    x2 = x * x
    term, total, k = x, x, 0
    while abs(term) > D(10) ** -130:
        k += 1
        term = -term * x2
        total += term / (2 * k + 1)
    return total


PI = 16 * atan_inv(5) - 4 * atan_inv(239)
SQRT_PI = PI.sqrt()
SQRT2 = D(2).sqrt()


def erf_series(x):
    x2 = x * x
    term = x          # (-1)^n x^(2n+1) / n!
    total = x
    n = 0
    while True:
        n += 1
        term = -term * x2 / n
        add = term / (2 * n + 1)
        total += add
        if abs(add) < D(10) ** -118 and n > x2:
            break
    return 2 * total / SQRT_PI


def erfc_cf(x, depth=4000):
    """Laplace continued fraction, x > 0 (converges fast for x >= 2)."""
    f = x
    for k in range(depth, 0, -1):
        f = x + (D(k) / 2) / f
    return (-(x * x)).exp() / SQRT_PI / f


def tail(k):
    z = D(k) / STEP_DEN
    return 1 - erf_series(z / SQRT2)


def split(v):
    """integer v (units 10^-12, 0 <= v <= 10^12) -> <<hi, lo>> with v = hi * 10^6 + lo"""
    hi, lo = divmod(int(v), 10 ** 6)
    return f"<<{hi}, {lo}>>"


def build():
    lo, hi = [], []
    for k in range(KMAX + 1):
        p = tail(k)
        # self-check 1: libm
        ref = math.erfc(k / STEP_DEN / math.sqrt(2.0))
        if abs(float(p) - ref) > 1e-13 * ref + 1e-300:
            raise SystemExit(f"self-check failed at z={k/100}: decimal {float(p)!r} vs libm {ref!r}")
        # self-check 3: continued fraction in the tail
        if k >= 300:
            cf = erfc_cf(D(k) / STEP_DEN / SQRT2)
            if abs(cf - p) > D(10) ** -40:
                raise SystemExit(f"self-check failed at z={k/100}: series vs continued fraction differ by {cf - p}")
        a = ((p - MARGIN) * UNIT).to_integral_value(rounding=ROUND_FLOOR)
        b = ((p + MARGIN) * UNIT).to_integral_value(rounding=ROUND_CEILING)
        a = max(a, D(0))
        b = min(b, UNIT)
        if k == 0:            # erf(0) = 0 exactly: P(0) = 1, no margin needed
            a = b = UNIT
        if not (a <= p * UNIT <= b):
            raise SystemExit("bracket does not contain the value")
        lo.append(int(a))
        hi.append(int(b))
    # self-check 2: published values (A&S 26.1), Phi(x) = 1 - P(x)/2
    for x, phi in ((100, "0.841344746068543"), (200, "0.977249868051821"), (300, "0.998650101968370")):
        got = 1 - tail(x) / 2
        if abs(got - D(phi)) > D("5e-16"):
            raise SystemExit(f"self-check failed: Phi({x/100}) = {got} vs published {phi}")
    if abs(tail(196) - D("0.04999579029644087")) > D("1e-16"):
        raise SystemExit(f"self-check failed: P(1.96) = {tail(196)}")
    if lo[0] != 10 ** 12 or hi[0] != 10 ** 12:
        raise SystemExit("P(0) must be exactly 1")
    for k in range(KMAX):
        if not (lo[k + 1] <= lo[k] and hi[k + 1] <= hi[k]):
            raise SystemExit("table not monotone")
    return lo, hi


def render(lo, hi):
    def rows(vals):
        out = []
        for i in range(0, len(vals), 6):
            out.append("    " + ", ".join(split(v) for v in vals[i:i + 6]))
        return ",\n".join(out)
    return f"""--------------------------- MODULE PhiTable ---------------------------
(* GENERATED by tools/gen_phi_table.py -- do not edit, do not regenerate at check time (DESIGN.md section 4.6).  *)
(* Two-sided standard normal tail  P(z) = 2 (1 - Phi(z)) = erfc(z / sqrt 2)  at z = k/100, k = 0..{KMAX}, as integer     *)
(* brackets in units of 10^-12 rounded outward:  entry k+1 of PhiLoTab / PhiHiTab is <<hi, lo>> with              *)
(*     (hi * 10^6 + lo) * 10^-12  <=  P(k/100)   resp.  >= P(k/100).                                             *)
(* Computed with Python `decimal` at 120 digits (Maclaurin series of erf, pi by Machin's formula), cross-checked  *)
(* against libm erfc (1e-13 relative), a continued fraction for z >= 3, and Abramowitz-Stegun table 26.1.         *)
(* P is decreasing, so for |z| in [k/100, (k+1)/100]:  PhiLo(k+1) <= P(|z|) <= PhiHi(k);  for |z| >= {KMAX/100}:            *)
(* 0 <= P(|z|) <= PhiHi({KMAX}).                                                                                    *)
PhiKMax == {KMAX}
PhiStepDen == {STEP_DEN}
PhiLoTab == <<
{rows(lo)}
>>
PhiHiTab == <<
{rows(hi)}
>>
=============================================================================
"""


def main():
    path = os.path.join(os.path.dirname(os.path.dirname(os.path.abspath(__file__))), "spec", "PhiTable.tla")
    lo, hi = build()
    text = render(lo, hi)
    if "--check" in sys.argv:
        with open(path) as f:
            same = f.read() == text
        print("PhiTable.tla matches the generator" if same else "PhiTable.tla DIFFERS from the generator")
        return 0 if same else 1
    with open(path, "w") as f:
        f.write(text)
    print(f"wrote {path}: {len(lo)} entries; P(1.96) in [{lo[196]}, {hi[196]}] e-12; P(8.5) in [{lo[850]}, {hi[850]}] e-12")
    return 0


if __name__ == "__main__":
    sys.exit(main())
