#!/bin/sh
# tools/seed_verify.sh <seed-dir> <check-id>...  : confirm a seeded change (demo fails with it, passes without), then run checks against it
# Works in a scratch worktree (VERIF_REPO); /repo's working tree is never modified.
sd=$1; shift
name=$(basename $sd)
wt=/tmp/wt-seedv-$name
git -C /repo worktree add --detach $wt >/dev/null 2>&1 || { echo "worktree failed"; exit 3; }
if ! git -C $wt apply $sd/patch.diff; then echo "PATCH-DOES-NOT-APPLY"; git -C /repo worktree remove --force $wt; exit 4; fi
echo "== demo on /repo:";   (cd /tmp && timeout 900 /venv/bin/python $sd/demo.py /repo >/tmp/demo-$name-repo.out 2>&1; echo "exit=$?")
echo "== demo on patched:"; (cd /tmp && timeout 900 /venv/bin/python $sd/demo.py $wt  >/tmp/demo-$name-wt.out 2>&1; echo "exit=$?"; tail -3 /tmp/demo-$name-wt.out | cut -c1-200)
for id in "$@"; do
  echo "== ./check $id on patched tree:"
  VERIF_REPO=$wt timeout 3000 /verif/check $id > /tmp/seedv-$name-$id.log 2>&1; echo "exit=$?"
  grep -E "^\[$id\]" /tmp/seedv-$name-$id.log | cut -c1-400
  grep -c "^VIOLATION" /tmp/seedv-$name-$id.log
done
git -C /repo worktree remove --force $wt
