#!/usr/bin/env python3
"""tools/seed_keep.py <seedout-dir> <seed-id> <property> <caught-by> <needs> [note]  -> /verif/seeded/<seed-id>/"""
import json, os, shutil, sys, subprocess
src, sid, prop, caught, needs = sys.argv[1:6]
note = sys.argv[6] if len(sys.argv) > 6 else ""
dst = os.path.join("/verif/seeded", sid)
os.makedirs(dst, exist_ok=True)
for f in ("patch.diff", "demo.py", "notes.md"):
    if os.path.exists(os.path.join(src, f)):
        shutil.copy(os.path.join(src, f), dst)
base = subprocess.run(["git", "-C", "/repo", "rev-parse", "--short", "HEAD"], capture_output=True, text=True).stdout.strip()
meta = {
    "seed_id": sid, "property": prop,
    "written_by": "independent sub-agent given only the property text and its own scratch worktree",
    "needs_to_manifest": needs,
    "confirmed": {
        "applies_to_repo_commit": base,
        "demo_on_unchanged_tree": "exit 0",
        "demo_on_changed_tree": "exit 1",
        "repo_test_suite_with_change": "same as baseline (64 passed / 6 failed), as reported by the sub-agent's tests-after run",
        "how": "tools/seed_verify.sh <dir> <check-id> (scratch worktree + VERIF_REPO; /repo untouched)",
    },
    "detected_by": caught,
    "note": note,
}
json.dump(meta, open(os.path.join(dst, "meta.json"), "w"), indent=1)
print("kept", dst)
