"""Scouting aid (not a check, decides nothing): runs 34 public operations on tables whose row index labels are offset /
gapped / permuted / reversed and lists the operations whose result changes with the labels.  It pointed at the
segfilters defect repaired in 7941d73; the deciding check is ./check C14 with the index route as an input dimension.
Usage: /venv/bin/python tools/scout_relabel.py [n_worlds]"""
import sys, warnings, logging
warnings.filterwarnings("ignore"); logging.disable(logging.CRITICAL)
sys.path.insert(0, "/repo")
import numpy as np, pandas as pd
from cnvlib.cnary import CopyNumArray as CNA
from skgenome import GenomicArray as GA
from cnvlib import segmetrics, reports, bintest, call, export, segfilters, segmentation, metrics
rs = np.random.RandomState(5)

def world(seed):
    rs = np.random.RandomState(seed)
    rows=[]; segs=[]
    for chrom in ("chr1","chr2","chrX","chrY"):
        p=1000; n=int(rs.randint(6,30))
        levels = rs.choice([-0.8,-0.3,0,0.4,0.9], size=3)
        cuts = sorted(rs.choice(range(1,n), size=2, replace=False)) if n>3 else [1,2]
        k0=0
        for k in range(n):
            ln=int(rs.choice([100,200,500])); lvl = levels[sum(k>=c for c in cuts)]
            gene = f"{chrom[3:]}G{k//4}" if k%5 else "Antitarget"
            rows.append((chrom,p,p+ln,gene,round(float(lvl+rs.normal(0,0.1)),4),round(float(rs.uniform(20,200)),2),round(float(rs.uniform(0.2,1)),3)))
            p+=ln+int(rs.choice([0,50,300]))
        sub=[r for r in rows if r[0]==chrom]
        bounds=[0]+list(cuts)+[n]
        for a,b in zip(bounds[:-1],bounds[1:]):
            if a>=b: continue
            s=sub[a:b]; m=float(np.mean([r[4] for r in s]))
            segs.append((chrom,s[0][1],s[-1][2],"-",round(m,4),round(float(np.mean([r[5] for r in s])),2),len(s),round(sum(r[6] for r in s),3)))
    cnr=CNA.from_rows(rows,["chromosome","start","end","gene","log2","depth","weight"],{"sample_id":"s"})
    cns=CNA.from_rows(segs,["chromosome","start","end","gene","log2","depth","probes","weight"],{"sample_id":"s"})
    return cnr,cns

def relabel(arr, how, rs):
    a=arr.copy(); n=len(a)
    if how=="offset": a.data.index=range(1000,1000+n)
    elif how=="gapped": a.data.index=np.cumsum(rs.randint(1,4,size=n))
    elif how=="perm": a.data.index=rs.permutation(n)
    elif how=="rev": a.data.index=range(n-1,-1,-1)
    return a

def norm(x):
    if isinstance(x,(CNA,GA)): x=x.data
    if isinstance(x,pd.DataFrame): return x.reset_index(drop=True).round(9).to_csv()
    if isinstance(x,pd.Series): return x.reset_index(drop=True).round(9).to_csv()
    if isinstance(x,tuple): return tuple(norm(y) for y in x)
    if isinstance(x,np.ndarray): return np.round(x,9).tolist().__repr__()
    return repr(x)

def cn_of(cns): return call.do_call(cns, method="threshold")
OPS = {
 "segmetrics": lambda cnr,cns: segmetrics.do_segmetrics(cnr,cns,location_stats=["mean","median"],spread_stats=["stdev","mad"],interval_stats=["ci"],bootstraps=20),
 "genemetrics_seg": lambda cnr,cns: reports.do_genemetrics(cnr,cns,0.2,2),
 "genemetrics_bins": lambda cnr,cns: reports.do_genemetrics(cnr,None,0.2,2),
 "breaks": lambda cnr,cns: pd.DataFrame(reports.do_breaks(cnr,cns,1)),
 "bintest": lambda cnr,cns: bintest.do_bintest(cnr,cns,alpha=0.5),
 "call_thr": lambda cnr,cns: call.do_call(cns,method="threshold"),
 "call_clonal": lambda cnr,cns: call.do_call(cns,method="clonal",purity=0.7,is_sample_female=False),
 "call_thr_cn_filter": lambda cnr,cns: call.do_call(cns,method="threshold",filters=["cn"]),
 "call_thr_ampdel": lambda cnr,cns: call.do_call(cns,method="threshold",filters=["ampdel","cn"]),
 "export_bed": lambda cnr,cns: export.export_bed(cn_of(cns),2,False,None,False,"s","ploidy"),
 "export_vcf": lambda cnr,cns: str(export.export_vcf(cn_of(cns),2,False,None,False)),
 "center_median": lambda cnr,cns: (lambda c:(c.center_all("median"),c)[1])(cnr.copy()),
 "center_mode": lambda cnr,cns: (lambda c:(c.center_all("mode"),c)[1])(cnr.copy()),
 "squash_genes": lambda cnr,cns: cnr.squash_genes(),
 "by_gene": lambda cnr,cns: [(g,norm(t)) for g,t in cnr.by_gene()],
 "seg_none": lambda cnr,cns: segmentation.do_segmentation(cnr,"none"),
 "seg_haar": lambda cnr,cns: segmentation.do_segmentation(cnr,"haar"),
 "seg_hmm": lambda cnr,cns: segmentation.do_segmentation(cnr,"hmm"),
 "metrics": lambda cnr,cns: metrics.do_metrics(cnr,cns),
 "merge": lambda cnr,cns: cnr.merge(),
 "flatten": lambda cnr,cns: cnr.flatten(),
 "subdivide": lambda cnr,cns: cnr.subdivide(150,20),
 "resize": lambda cnr,cns: cnr.resize_ranges(30),
 "intersection": lambda cnr,cns: cnr.intersection(cns),
 "into_ranges": lambda cnr,cns: cnr.into_ranges(cns,"log2",0.0),
 "subtract": lambda cnr,cns: cns.subtract(cnr),
 "residuals": lambda cnr,cns: cnr.residuals(cns),
 "guess_xx": lambda cnr,cns: cnr.guess_xx(),
 "smooth_log2": lambda cnr,cns: cnr.smooth_log2(),
 "drop_low_cov": lambda cnr,cns: cnr.drop_low_coverage(),
 "shift_xx": lambda cnr,cns: cnr.shift_xx(True,True),
 "autosomes": lambda cnr,cns: cnr.autosomes(),
 "by_arm": lambda cnr,cns: [(a,norm(t)) for a,t in cnr.by_arm(min_gap_size=250,min_arm_bins=2)],
 "sem_filter": lambda cnr,cns: segfilters.sem(segmetrics.do_segmetrics(cnr,cns,interval_stats=[],spread_stats=["sem"])) ,
}
bad={}
for seed in range(int(sys.argv[1]) if len(sys.argv)>1 else 6):
    cnr,cns=world(seed)
    for name,f in OPS.items():
        try: base=norm(f(cnr.copy(),cns.copy()))
        except Exception as e: base="ERR:"+type(e).__name__
        for how in ("offset","gapped","perm","rev"):
            for which in ("cnr","cns","both"):
                r2=np.random.RandomState(seed*7+1)
                c1=relabel(cnr,how,r2) if which in("cnr","both") else cnr.copy()
                c2=relabel(cns,how,r2) if which in("cns","both") else cns.copy()
                try: out=norm(f(c1,c2))
                except Exception as e: out="ERR:"+type(e).__name__+":"+str(e)[:60]
                if out!=base:
                    bad.setdefault(name,set()).add((how,which,out[:70] if out.startswith("ERR") else "DIFF"))
for k,v in sorted(bad.items()): print(k, sorted(v)[:6])
print("ops with differences:", len(bad), "of", len(OPS))
