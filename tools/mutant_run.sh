#!/bin/sh
# tools/mutant_run.sh <name> <check-id> <sed-expr> <file>   -- apply a sed mutation in a scratch worktree and run a check against it
name=$1; id=$2; expr=$3; file=$4
wt=/tmp/wt-mut-$name
git -C /repo worktree add --detach $wt >/dev/null 2>&1 || exit 3
sed -i "$expr" $wt/$file
( cd $wt && git diff --stat | tail -1 )
VERIF_REPO=$wt timeout 1500 /verif/check $id 2>/dev/null | grep -E "^\[$id\]|VIOLATION" | head -4 | cut -c1-300
echo "exit=$?"
git -C /repo worktree remove --force $wt
