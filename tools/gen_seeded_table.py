#!/usr/bin/env python3
"""Print the markdown table of seeded changes from /verif/seeded/*/meta.json (pasted into DESIGN.md 13.6)."""
import glob, json, os
rows = []
for p in sorted(glob.glob("/verif/seeded/*/meta.json")):
    m = json.load(open(p))
    rows.append((m["seed_id"], m["property"], m["needs_to_manifest"].replace("|", "/"), m["detected_by"].replace("|", "/")))
print("| seed | property | needs in order to manifest | result of the check |")
print("|------|----------|----------------------------|---------------------|")
for r in rows:
    print("| %s | %s | %s | %s |" % r)
print()
n = len(rows); missed = [r[0] for r in rows if r[3].startswith("MISSED")]; pend = [r[0] for r in rows if "pending" in r[3]]
print(f"{n} seeded changes; caught as first built: {n-len(missed)-len(pend)}; missed at first and caught after strengthening: {len(missed)} ({', '.join(missed)}); pending: {len(pend)} ({', '.join(pend)})")
