#!/usr/bin/env python3
"""Evaluate a TLA+ expression in the context of a spec module:  tools/tlaeval.py Intervals 'MergeSweep(<<...>>, 0)'"""
import os, subprocess, sys, tempfile, shutil
mod, expr = sys.argv[1], sys.argv[2]
spec = os.path.join(os.path.dirname(os.path.dirname(os.path.abspath(__file__))), "spec")
d = tempfile.mkdtemp()
try:
    for f in os.listdir(spec):
        if f.endswith(".tla"):
            shutil.copy(os.path.join(spec, f), d)
    open(os.path.join(d, "EvalTmp.tla"), "w").write(
        f"---- MODULE EvalTmp ----\nEXTENDS {mod}\nASSUME PrintT(<<\"EVAL\", {expr}>>)\nVARIABLE x\nInit == x = 0\nNext == UNCHANGED x\n====\n")
    open(os.path.join(d, "EvalTmp.cfg"), "w").write("INIT Init\nNEXT Next\n")
    p = subprocess.run(["tlc", "-metadir", d + "/m", "-noGenerateSpecTE", "-config", "EvalTmp.cfg", "EvalTmp.tla"],
                       cwd=d, stdout=subprocess.PIPE, stderr=subprocess.STDOUT, text=True)
    out = p.stdout
    import re as _re; _m = _re.search(r"<<\s*\"EVAL\"", out); i = _m.start() if _m else -1
    if i >= 0:
        j = out.find("Starting...", i)
        print(out[i:j].strip())
    else:
        print(out[-3000:])
finally:
    shutil.rmtree(d, ignore_errors=True)
