#!/usr/bin/env python3
"""Rewrite the seeded-changes table in DESIGN.md 13.6 from /verif/seeded/*/meta.json (the prose around it is kept)."""
import subprocess, re
table = subprocess.run(["python3", "/verif/tools/gen_seeded_table.py"], capture_output=True, text=True, check=True).stdout
rows = [l for l in table.splitlines() if l.startswith("|")]
p = "/verif/DESIGN.md"
s = open(p).read()
start = s.index("| seed | property | needs in order to manifest |")
m = re.compile(r"\n(?!\|)").search(s, start)          # first line after the table that is not a table row
s = s[:start] + "\n".join(rows) + s[m.start():]
open(p, "w").write(s)
print(table.splitlines()[-1])
