#!/usr/bin/env python3
"""Print the markdown cost table of DESIGN.md 13.9 from the summary lines of a full quick pass
(/tmp/regen-<id>.log, written by the regen loop: ./check <id> --tier quick for every id)."""
import glob, re, sys
print("| check | records from real code | judged by TLC | out of scope | TLC states | known-finding matches | wall s |")
print("|-------|------------------------|---------------|--------------|------------|-----------------------|--------|")
for p in sorted(glob.glob((sys.argv[1] if len(sys.argv) > 1 else "/tmp") + "/regen-C??.log")):
    lines = [l for l in open(p) if re.match(r"^\[C\d\d\] tier=", l)]
    if not lines:
        continue
    l = lines[-1]
    g = lambda k: re.search(k + r"=([\d.]+)", l).group(1)
    cid = re.match(r"^\[(C\d\d)\]", l).group(1)
    print(f"| {cid} | {g('records')} | {g('judged')} | {g('out_of_scope')} | {g('tlc_states')} | {g('known')} | {g('wall')} |")
