#!/usr/bin/env python3
"""Validate /verif/MANIFEST.json and /verif/evidence/*.json against the schemas (run with python3-vt, which has jsonschema)."""
import glob, json, sys
import jsonschema
ms = json.load(open("/root/.vp/MANIFEST.schema.json")); es = json.load(open("/root/.vp/EVIDENCE.schema.json"))
man = json.load(open("/verif/MANIFEST.json")); jsonschema.validate(man, ms)
bad = 0
for c in man["checks"]:
    p = c["evidence_file"]
    try:
        ev = json.load(open(p)); jsonschema.validate(ev, es)
        ok = ev["level"] == c["level_claimed"]["category"] and ev["property_id"] == c["property_id"]
        print(("ok  " if ok else "LEVEL-MISMATCH ") + p, ev["tier"], ev["coverage"].get("states"), ev["coverage"].get("traces_validated_against_impl"), "viol=", ev.get("violations"))
        bad += 0 if ok else 1
    except Exception as e:
        print("BAD ", p, str(e)[:200]); bad += 1
sys.exit(1 if bad else 0)
