#!/bin/sh
# Offline setup: parse every specification module with SANY and smoke-run TLC. No installs, no network.
cd "$(dirname "$0")" || exit 1
fail=0
for f in spec/*.tla; do
  out=$(cd spec && java -cp /opt/veriftools/tla/tla2tools.jar:/opt/veriftools/tla/CommunityModules-deps.jar tla2sany.SANY "$(basename "$f")" 2>&1)
  if echo "$out" | grep -Eq "Semantic errors|Parse Error|Fatal errors|Could not find module|Abort"; then
    echo "SANY failed: $f"; echo "$out" | tail -20; fail=1
  fi
done
/venv/bin/python -c "import cnvlib, skgenome, pandas, numpy, scipy, pysam" || fail=1
mkdir -p evidence replays
[ $fail -eq 0 ] && echo "setup ok"
exit $fail
